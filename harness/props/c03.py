"""C03 — results do not depend on the execution strategy.

One logical dataset is run through the public API under several execution strategies and
every result is compared with the reference strategy (keys factorized whole, one thread,
contiguous arrays):
  chunked   keys factorized in chunks (threshold forced down): monotonic-prefix attempt,
            4 array_split chunks, per-chunk dictionaries + pointer tables
  arrowkeys keys given as a pyarrow ChunkedArray with arbitrary (also empty) chunk boundaries
  threads   2-4 worker threads inside the kernels (rows-per-thread forced down)
  valchunks values given as a pyarrow ChunkedArray whose boundaries are not those of the keys
  jitter    completion order of the thread-pool tasks permuted by seeded sleeps
and combinations.  Key shapes are drawn to reach every factorization route: random,
fully increasing, long increasing prefix then random, with nulls.  Kernel level: the
group_* kernels for n_threads 1..4 with every mask kind (unordered positions included)."""
from __future__ import annotations

import random
from fractions import Fraction

import numpy as np
import pandas as pd
import pyarrow as pa

from ..common import to_frac, Driver, log
from .. import api
from ..kernels import make_array, make_mask
from .c05 import close, HALFLIFE_NS

OPS = ["size", "count", "sum", "mean", "min", "max", "first", "last", "var", "t_sum", "t_count", "t_min", "t_last",
       "cumsum", "cummax", "cumcount", "rolling_sum", "rolling_min", "shift", "diff", "ema", "ema_timed", "groups", "median", "head", "nth"]
VALS = [None, Fraction(1), Fraction(2), Fraction(-3), Fraction(1, 2), Fraction(5, 4), Fraction(7)]
STRATS = ["chunked", "arrowkeys", "threads", "valchunks", "chunked+threads+jitter", "arrowkeys+valchunks+jitter", "threads+valchunks", "chunked+valchunks"]


def split_points(rng, n, allow_empty=True):
    k = rng.randint(1, min(4, max(1, n)))
    cuts = sorted(rng.randint(0, n) for _ in range(k - 1))
    b = [0, *cuts, n]
    lens = [b[i + 1] - b[i] for i in range(len(b) - 1)]
    if not allow_empty:
        lens = [x for x in lens if x] or [n]
    return lens


def gen_case(rng, tier):
    n = rng.randint(4, 12 if tier == "quick" else 18)
    shape = rng.choice(["random", "random", "mono", "prefix", "prefix_null", "random_null"])
    nlab = rng.choice([2, 3, 4])
    if shape == "mono":
        col = sorted(rng.randrange(nlab + 2) for _ in range(n))
    elif shape.startswith("prefix"):
        m = rng.randint(n // 3 + 1, n - 1)
        col = sorted(rng.randrange(nlab + 1) for _ in range(m)) + [rng.randrange(nlab + 2) for _ in range(n - m)]
    else:
        col = [rng.randrange(nlab) for _ in range(n)]
    if shape.endswith("null"):
        for _ in range(rng.randint(1, 3)):
            col[rng.randrange(1 if shape == "prefix_null" else 0, n)] = None
    if rng.random() < 0.12:
        col = [None if r is None else r % 2 for r in col]        # two labels at most: also boolean keys
    kind = rng.choice([k for k in ["float", "int", "str", "dt", "dttz", "date", "bool", "bool"] if api.kind_ok(col, k)])
    nkeys = 1 if rng.random() < 0.8 else 2
    keycols = [col] + [[rng.randrange(2) for _ in range(n)] for _ in range(nkeys - 1)]
    kinds = [kind] + ["int"] * (nkeys - 1)
    vals = [rng.choice(VALS) for _ in range(n)]
    op = rng.choice(OPS)
    mk = rng.choice(["none", "none", "bool", "slice", "idx", "idx_sorted"])
    if op in ("cumsum", "cummax", "cumcount", "rolling_sum", "rolling_min", "shift", "diff", "ema", "ema_timed", "median"):
        mk = rng.choice(["none", "bool"])
    if op in ("groups", "head", "nth"):
        mk = "none"
    if mk == "none":
        mask = None
    elif mk == "bool":
        mask = ("b", [rng.random() < 0.65 for _ in range(n)])
    elif mk == "slice":
        mask = ("s", rng.choice([None, 0, 1, 3, -2, -n]), rng.choice([None, n, n - 1, -1, n + 2]))
    elif mk == "idx_sorted":
        mask = ("i", sorted(rng.sample(range(n), rng.randint(0, n))))
    else:
        mask = ("i", [rng.randrange(-n, n) for _ in range(rng.randint(0, n))])
    params = dict(window=rng.randint(1, 3), alpha=rng.choice([0.5, 0.25]), n=rng.randint(-2, 2), ddof=rng.choice([0, 1]))
    t, times = 0, []
    for _ in range(n):
        t += rng.choice([0, 1, 2]) * HALFLIFE_NS
        times.append(t)
    params["times"] = times
    strat = rng.choice(STRATS if nkeys == 1 else ["threads", "valchunks", "threads+valchunks"])
    return dict(sort=rng.random() < 0.7, keycols=keycols, kinds=kinds, vals=vals, op=op, mask=mask, mk=mk, params=params, strat=strat, shape=shape,
                key_chunks=split_points(rng, n), val_chunks=split_points(rng, n, allow_empty=False), jitter=rng.randrange(1000))


def call_op(gb, op, v, mask, params, n):
    if op == "size":
        return gb.size(mask=mask)
    if op in ("count", "sum", "mean", "min", "max", "first", "last", "median"):
        return getattr(gb, op)(v, mask=mask)
    if op == "var":
        return gb.var(v, mask=mask, ddof=params["ddof"])
    if op.startswith("t_"):
        return getattr(gb, op[2:])(v, mask=mask, transform=True)
    if op in ("cumsum", "cummax"):
        return getattr(gb, op)(v, mask=mask)
    if op == "cumcount":
        return gb.cumcount(mask=mask)
    if op.startswith("rolling"):
        return getattr(gb, op)(v, params["window"], min_periods=1, mask=mask)
    if op in ("shift", "diff"):
        return getattr(gb, op)(v, params["window"], mask=mask)
    if op == "ema":
        return gb.ema(v, alpha=params["alpha"], mask=mask)
    if op == "ema_timed":
        return gb.ema(v, halflife="1s", times=np.array(params["times"], dtype="int64").view("datetime64[ns]"), mask=mask)
    if op == "groups":
        return pd.Series({k: tuple(int(i) for i in ix) for k, ix in gb.groups.items()}, dtype=object)
    if op in ("head", "nth"):
        ser = v if isinstance(v, pd.Series) else pd.Series(np.asarray(v.to_numpy() if hasattr(v, "to_numpy") else v))
        return getattr(gb, op)(ser, abs(params["n"]) if op == "head" else params["n"], keep_input_index=True)
    raise ValueError(op)


def canon(out, kinds, op):
    if op == "groups":
        return [(api.index_to_ranks(pd.Index([k]) if not isinstance(k, tuple) else pd.MultiIndex.from_tuples([k]), kinds)[0], v) for k, v in out.items()]
    vals = api.canon_series(out)
    if op.startswith(("t_", "cum", "rolling", "shift", "diff", "ema")):
        return vals
    if op in ("head", "nth"):
        return list(zip([int(x) for x in out.index.tolist()], vals))
    return list(zip(api.index_to_ranks(out.index, kinds), vals))


def run_strategy(GroupBy, c, strat):
    n = len(c["vals"])
    parts = set(strat.split("+")) if strat else set()
    col, kind = c["keycols"][0], c["kinds"][0]
    if "arrowkeys" in parts and kind in ("float", "int", "str", "dt", "dttz", "date"):
        key0 = api.make_key(col, kind, "arrow_chunked", chunks=c["key_chunks"])
    else:
        key0 = api.make_key(col, kind, "numpy")
    keys = [key0] + [api.make_key(cc, kk, "numpy") for cc, kk in zip(c["keycols"][1:], c["kinds"][1:])]
    if "valchunks" in parts:
        v = api.make_values(c["vals"], "f8", "arrow_chunked", chunks=c["val_chunks"])
    else:
        v = api.make_values(c["vals"], "f8")
    mask = make_mask(c["mask"])
    with api.strategy(chunk_threshold=4 if "chunked" in parts else None,
                      rows_per_thread=2 if "threads" in parts else None,
                      jitter_seed=c["jitter"] if "jitter" in parts else None):
        gb = GroupBy(keys if len(keys) > 1 else keys[0], sort=c.get("sort", True))
        info = dict(chunked=bool(gb.key_is_chunked), pointers=gb._group_key_pointers is not None)
        out = call_op(gb, c["op"], v, mask, c["params"], n)
        return canon(out, c["kinds"], c["op"]), info


def same(a, b, approx):
    if len(a) != len(b):
        return False
    for x, y in zip(a, b):
        if isinstance(x, tuple):
            if x[0] != y[0] or not (close(x[1], y[1], approx) if not isinstance(x[1], tuple) else x[1] == y[1]):
                return False
        elif not close(x, y, approx):
            return False
    return True


def case_json(c):
    return dict(sort=c.get("sort", True), keys=c["keycols"], key_kinds=c["kinds"], values=[None if v is None else str(v) for v in c["vals"]], op=c["op"], mask=c["mask"],
                strategy=c["strat"], key_chunks=c["key_chunks"], val_chunks=c["val_chunks"], jitter=c["jitter"], params=c["params"], shape=c["shape"], mk=c["mk"])


def run_case(GroupBy, c):
    sig = dict(level="api", op=c["op"], strategy=c["strat"], mask=c["mk"], shape=c["shape"])
    approx = c["op"] in ("ema", "ema_timed", "var", "mean")
    try:
        ref, _ = run_strategy(GroupBy, c, "")
    except Exception as e:  # noqa: BLE001
        ref = ("raised", type(e).__name__)
    try:
        got, info = run_strategy(GroupBy, c, c["strat"])
    except Exception as e:  # noqa: BLE001
        got, info = ("raised", type(e).__name__), {}
    if isinstance(ref, tuple) and ref and ref[0] == "raised":
        if got == ref or (isinstance(got, tuple) and got and got[0] == "raised"):
            return [], info       # both reject (misuse such as a mask on an operation that takes none): not this property
        return [dict(sig={**sig, "what": "reference-raised"}, what=f"{c['op']}: the plain strategy raises {ref[1]} but {c['strat']} answers", observed=str(got)[:300], expected=str(ref))], info
    if isinstance(got, tuple) and got and got[0] == "raised":
        return [dict(sig={**sig, "what": "raised", "exc": got[1]}, what=f"{c['op']} under strategy {c['strat']} raises {got[1]}; the plain strategy answers", observed=str(got), expected=str(ref)[:300])], info
    if not same(got, ref, approx):
        return [dict(sig={**sig, "what": "differs"}, what=f"{c['op']} under strategy {c['strat']} differs from the plain strategy", observed=str(got)[:600], expected=str(ref)[:600])], info
    return [], info


def kernel_stream(res, rng, tier):
    from groupby_lib.groupby import numba as nbf
    n_cases = 1500 if tier == "quick" else 15000
    for t in range(n_cases):
        n = rng.randint(2, 10)
        codes = [rng.choice([-1, 0, 1, 2]) for _ in range(n)]
        vals = [rng.choice(VALS) for _ in range(n)]
        kernel = rng.choice(["sum", "min", "max", "first", "last", "count", "mean", "sum_squares"])
        mk = rng.choice(["none", "bool", "slice", "idx"])
        mask = None if mk == "none" else ("b", [rng.random() < 0.6 for _ in range(n)]) if mk == "bool" else \
            ("s", rng.choice([None, 1, -3]), rng.choice([None, n - 1, -1])) if mk == "slice" else ("i", [rng.randrange(-n, n) for _ in range(rng.randint(0, n + 2))])
        key = np.array(codes, dtype="int64")
        arr = make_array(vals, "f8")
        outs = {}
        for nt in (1, 2, 3, 4):
            try:
                r, cnt = getattr(nbf, "group_" + kernel)(key, arr, 3, mask=make_mask(mask), n_threads=nt, return_count=True)
                outs[nt] = ([None if np.isnan(x) else float(x) for x in np.asarray(r, dtype="float64").tolist()], np.asarray(cnt).tolist())
            except Exception as e:  # noqa: BLE001
                outs[nt] = ("raised", type(e).__name__)
        case = dict(level="kernel", kernel=kernel, codes=codes, values=[None if v is None else str(v) for v in vals], mask=mask)
        res.note_case(repr(case), True)
        res.count("kernel", kernel); res.count("kernel_mask", mk)
        if t % 499 == 0:
            res.sample(case)
        bad = [nt for nt in (2, 3, 4) if outs[nt] != outs[1]]
        if bad:
            res.violations.append(dict(sig=dict(level="kernel", kernel=kernel, mask=mk, what="threads-differ"), case=case, observed=str({nt: outs[nt] for nt in bad})[:500], expected=str(outs[1])[:300],
                                       what=f"group_{kernel} with n_threads {bad} differs from n_threads=1"))


def chunked_model_stream(res, rng, tier):
    """impl vs code-model of _apply_gb_func_across_chunked_group_keys / _unify_group_key_chunks: the real
    per-chunk codes and pointer tables of a chunk-factorized GroupBy are handed to the extracted model."""
    from groupby_lib import GroupBy
    from ..common import sx, val_to_atom, atom_to_val
    drv = Driver()
    FUNC = {"sum": ("nansum", "nansum"), "min": ("nanmin", "nanmin"), "max": ("nanmax", "nanmax"), "first": ("first", "first"),
            "last": ("last", "last"), "sum_squares": ("nansum_squares", "nansum")}
    n_cases = 400 if tier == "quick" else 4000
    jobs = []
    for t in range(n_cases):
        c = gen_case(rng, tier)
        if len(c["keycols"]) != 1:
            continue
        col, kind = c["keycols"][0], c["kinds"][0]
        func = rng.choice(list(FUNC))
        arrow = rng.random() < 0.5 and kind in ("float", "int", "str", "dt", "dttz", "date")
        key = api.make_key(col, kind, "arrow_chunked", chunks=c["key_chunks"]) if arrow else api.make_key(col, kind, "numpy")
        with api.strategy(chunk_threshold=4):
            try:
                gb = GroupBy(key)
            except Exception as e:  # noqa: BLE001
                res.violations.append(dict(sig=dict(level="chunk-model", what="constructor-raised", kind=kind, arrow=arrow, exc=type(e).__name__),
                                           case=dict(keys=c["keycols"], key_kinds=c["kinds"], key_chunks=c["key_chunks"], arrow=arrow), observed=repr(e)[:200], expected="a grouping",
                                           what="GroupBy(key) raised on the chunk-factorized route"))
                continue
            if not gb.key_is_chunked or gb._group_key_pointers is None:
                continue
            chunks = [np.asarray(ch.to_numpy(zero_copy_only=False)).astype("int64").tolist() for ch in gb._group_ikey.chunks]
            pointers = [np.asarray(p).astype("int64").tolist() for p in gb._group_key_pointers]
            ng = gb.ngroups
            v = api.make_values(c["vals"], "f8")
            (combined, count), = gb._apply_gb_func_across_chunked_group_keys(func, [v])
            gb._unify_group_key_chunks()
            unified = np.asarray(gb.group_ikey).astype("int64").tolist()
        vals_atoms = [val_to_atom(x, "f") for x in c["vals"]]
        st, chs = 0, []
        for codes, p in zip(chunks, pointers):
            chs.append([p, codes, vals_atoms[st: st + len(codes)]])
            st += len(codes)
        jobs.append((c, func, chunks, pointers, ng, combined, count, unified, chs))
    reqs = []
    for c, func, chunks, pointers, ng, combined, count, unified, chs in jobs:
        reqs.append(sx(["across_chunks", "f", FUNC[func][0], FUNC[func][1], ng, chs]))
        for codes, p in zip(chunks, pointers):
            reqs.append(sx(["unify_codes", p, codes]))
    resp = drv.ask(reqs)
    ri = 0
    for c, func, chunks, pointers, ng, combined, count, unified, chs in jobs:
        model = resp[ri]; ri += 1
        muni = []
        for _ in chunks:
            muni += [int(x) for x in resp[ri]]; ri += 1
        mv = [atom_to_val(p[0], "f") for p in model]
        mc = [int(p[1]) for p in model]
        iv = [None if np.isnan(x) else to_frac(x) for x in np.asarray(combined, dtype="float64")[:ng].tolist()]
        ic = [int(x) for x in np.asarray(count)[:ng].tolist()]
        case = dict(level="chunked-model", func=func, chunk_codes=chunks, pointers=pointers, values=[None if v is None else str(v) for v in c["vals"]])
        res.note_case(repr(case), True)
        res.count("chunked_model_func", func); res.count("chunked_model_nchunks", len(chunks))
        if len(res.samples) < 8 and ri % 7 == 0:
            res.sample(case)
        # cells of groups nobody touched hold the initial accumulator in both; compare where count > 0, and counts everywhere
        if ic != mc or any(ic[g] > 0 and iv[g] != mv[g] for g in range(ng)):
            res.model_mismatches.append(dict(case=case, impl=str((iv, ic)), model=str((mv, mc))))
        if unified != muni:
            res.model_mismatches.append(dict(case=dict(case, what="unify"), impl=str(unified), model=str(muni)))


def sentinel_stream(res, rng, tier, GroupBy):
    """Partial sums that equal the integer null sentinel: a key chunk (or a thread block) whose rows of one group sum to
    exactly -2**63, the group having rows elsewhere too, so that the true sum is back in range.  Chunked vs whole keys."""
    import pyarrow as pa
    NEG = -2**62
    for t in range(150 if tier == "quick" else 1500):
        nch = rng.randint(2, 4)
        sizes = [rng.randint(1, 3) for _ in range(nch)]
        which = rng.randrange(nch)
        sizes[which] = max(sizes[which], 2)
        n = sum(sizes)
        labels = [3, 5, 4]                      # not increasing: no monotonic prefix swallows the chunks
        keys, vals, st = [], [], 0
        for ci, sz in enumerate(sizes):
            for j in range(sz):
                keys.append(rng.choice(labels))
                vals.append(rng.choice([1, 5, 7, 9]))
        # the chosen chunk: two rows of group g carry -2**62 each, its other rows of g carry nothing else of g
        st = sum(sizes[:which])
        g = rng.choice(labels)
        idx = list(range(st, st + sizes[which]))
        i, j = idx[0], idx[1]
        keys[i] = keys[j] = g; vals[i] = vals[j] = NEG
        for k in idx[2:]:
            if keys[k] == g:
                keys[k] = [x for x in labels if x != g][0]
        # g also occurs in another chunk, BEFORE or AFTER
        other = rng.choice([c for c in range(nch) if c != which])
        keys[sum(sizes[:other])] = g
        if keys[0] <= min(keys):                 # keep the first key from starting a long increasing prefix
            keys[0] = max(labels)
        if sum(1 for a, b in zip(keys, keys[1:]) if a <= b) == len(keys) - 1:
            continue
        v = np.array(vals, dtype="int64")
        karr = np.array(keys, dtype="int64")
        kchunks, st = [], 0
        for sz in sizes:
            kchunks.append(pa.array(karr[st:st + sz])); st += sz
        case = dict(level="api", stream="sentinel-partial", keys=keys, values=[str(x) for x in vals], key_chunks=sizes)
        res.note_case(repr(case), True)
        res.count("stream", "sentinel-partial")
        for op in ("sum", "mean", "count"):
            try:
                whole = getattr(GroupBy(karr), op)(v)
                chunked = getattr(GroupBy(pa.chunked_array(kchunks)), op)(v)
                with api.strategy(chunk_threshold=2):
                    forced = getattr(GroupBy(karr), op)(v)
                a, b, c_ = whole.to_dict(), chunked.to_dict(), forced.to_dict()
                if a != b or a != c_:
                    res.violations.append(dict(sig=dict(level="api", stream="sentinel-partial", op=op, what="differs"), case=case, observed=str(dict(chunked=b, forced=c_)), expected=str(a),
                                               what=f"{op}: chunk-factorized keys differ from whole keys when a chunk's partial sum equals the integer sentinel"))
            except Exception as e:  # noqa: BLE001
                res.violations.append(dict(sig=dict(level="api", stream="sentinel-partial", op=op, what="raised"), case=case, observed=repr(e)[:200], expected="a result", what=f"{op} raised"))


def run(res, tier="quick", seed=0, widen=False):
    from groupby_lib import GroupBy

    rng = random.Random(seed * 13 + 3 + (1 if widen else 0))
    n_cases = 3000 if tier == "quick" else 30000
    res.rule = ("seeded random logical datasets (4-18 rows; key shapes random / fully increasing / long increasing prefix then random / with nulls; float, int, str, datetime keys; "
                "1-2 keys) x 26 operations (reductions, var, transform, cumulative, rolling, shift/diff, EMA, groups, median, head/nth) x all mask kinds x one of 8 strategy "
                "combinations (chunk-factorized keys, pyarrow-chunked keys with arbitrary/empty chunks, 2-4 kernel threads, pyarrow-chunked values with misaligned boundaries, "
                "seeded thread-pool jitter); every result compared with the plain strategy; kernel stream: group_* for n_threads 1..4 x mask kinds; "
                "non-trivial = the strategy actually changed the route (chunked keys / pointers / threads > 1 / > 1 value chunk); distinct = canonical case")
    kernel_stream(res, rng, tier)
    chunked_model_stream(res, rng, tier)
    from groupby_lib import GroupBy as _GB
    sentinel_stream(res, rng, tier, _GB)
    routes = {}
    for ci in range(n_cases):
        c = gen_case(rng, tier)
        cj = case_json(c)
        viol, info = run_case(GroupBy, c)
        changed = info.get("chunked") or "threads" in c["strat"] or ("valchunks" in c["strat"] and len(c["val_chunks"]) > 1)
        res.note_case(repr(cj), bool(changed))
        res.count("op", c["op"]); res.count("strategy", c["strat"]); res.count("mask", c["mk"]); res.count("key_shape", c["shape"]); res.count("rows", len(c["vals"]))
        res.count("route", f"chunked={info.get('chunked')},pointers={info.get('pointers')}")
        if ci % 499 == 0:
            res.sample(cj)
        for v in viol:
            v["case"] = cj
            res.violations.append(v)


def replay(payload):
    from groupby_lib import GroupBy
    c0 = payload["case"]
    if c0.get("level") == "kernel":
        return False, "replay: kernel-level case, re-run ./bin/check C03; stored case: " + str(c0)
    c = dict(sort=c0.get("sort", True), keycols=c0["keys"], kinds=c0["key_kinds"], vals=[None if v is None else Fraction(v) for v in c0["values"]], op=c0["op"],
             mask=None if c0["mask"] is None else tuple(c0["mask"]), mk=c0["mk"], params=c0["params"], strat=c0["strategy"], shape=c0["shape"],
             key_chunks=c0["key_chunks"], val_chunks=c0["val_chunks"], jitter=c0["jitter"])
    v, _ = run_case(GroupBy, c)
    return (not v), ("replay: " + (v[0]["what"] if v else "no violation on this input"))
