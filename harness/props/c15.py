"""C15 — head/tail/nth select exactly the requested rows of each group."""
from __future__ import annotations

import itertools
import random

import numpy as np
import pandas as pd

from .. import api
from ..common import Driver, log, sx, err_kind
from ..rowops import bmask_sx, impl_find_nth, impl_first_last_n


def py_positions(codes, mask, g):
    return [i for i, k in enumerate(codes) if k == g and (mask is None or mask[i])]


def expected_api(codes, kind, n):
    """positions the public method must return, in original row order"""
    groups = sorted({k for k in codes if k >= 0})
    sel = []
    for g in groups:
        ps = py_positions(codes, None, g)
        if kind == "head":
            sel += ps[:n]
        elif kind == "tail":
            sel += ps[max(0, len(ps) - n):] if n else []
        else:
            if n >= 0 and n < len(ps):
                sel.append(ps[n])
            elif n < 0 and -n <= len(ps):
                sel.append(ps[n])
    return sorted(sel)


def run(res, tier="quick", seed=0, widen=False):
    from groupby_lib.groupby import numba as nbf
    from groupby_lib import GroupBy

    rng = random.Random(seed * 31 + 5 + (1 if widen else 0))
    drv = Driver()
    maxlen = 5 if tier == "quick" else 7
    res.rule = ("kernel level: all code sequences of length <= %d over {-1,0,1,2} x n in -4..5 (nth) / 0..4 (head, tail) x {no mask, seeded boolean mask}; "
                "API level: GroupBy.head/tail/nth(keep_input_index=True) on random keys (str/int/float with nulls) with a non-monotonic, duplicated input index, "
                "1-D and 2-column values; thorough adds groups of 32767..70000 rows; non-trivial = >= 2 groups or a null key or a mask; distinct = canonical case" % maxlen)
    cases = []
    for L in range(0, maxlen + 1):
        for codes in itertools.product([-1, 0, 1, 2], repeat=L):
            if tier == "quick" and L == maxlen and rng.random() < 0.5:
                continue
            mask = None if rng.random() < 0.6 else [rng.random() < 0.6 for _ in range(L)]
            n = rng.randint(-4, 5)
            cases.append(("nth", codes, n, mask))
            n2 = rng.randint(0, 4)
            cases.append(("head", codes, n2, mask))
            cases.append(("tail", codes, n2, mask))
    reqs = []
    for kind, codes, n, mask in cases:
        if kind == "nth":
            reqs.append(sx(["find_nth", list(codes), 3, n, bmask_sx(mask)]))
            reqs.append(sx(["nth_spec", list(codes), 3, n, bmask_sx(mask)]))
        else:
            reqs.append(sx(["find_first_or_last_n", list(codes), 3, n, bmask_sx(mask), 1 if kind == "head" else 0]))
            reqs.append(sx(["first_n_spec" if kind == "head" else "last_n_spec", list(codes), 3, n, bmask_sx(mask)]))
    resp = drv.ask(reqs)
    for ci, (kind, codes, n, mask) in enumerate(cases):
        model, spec = resp[2 * ci], resp[2 * ci + 1]
        if kind == "nth":
            impl = impl_find_nth(nbf, codes, 3, n, mask)
            model = [int(x) for x in model]; spec = [int(x) for x in spec]
        else:
            impl = impl_first_last_n(nbf, codes, 3, n, mask, kind == "head")
            model = [[int(x) for x in r] for r in model]; spec = [[int(x) for x in r] for r in spec]
        nontrivial = len({k for k in codes if k >= 0}) >= 2 or any(k < 0 for k in codes) or mask is not None
        res.note_case(repr((kind, codes, n, mask)), nontrivial)
        res.count("kind", kind); res.count("len", len(codes)); res.count("n", n); res.count("mask", "none" if mask is None else "bool")
        case = dict(level="kernel", kind=kind, codes=list(codes), n=n, mask=mask)
        if ci % 1501 == 0:
            res.sample(case)
        sig = dict(level="kernel", kind=kind)
        if impl[0] != "ok":
            res.violations.append(dict(sig={**sig, "what": "raised"}, case=case, observed=str(impl), expected=str(spec), what=f"{kind} kernel raised"))
            continue
        got = impl[1]
        if kind != "nth" and n == 0:
            got = [[] for _ in got] if got == [] or all(len(r) == 0 for r in got) else got
            model = [[] for _ in range(3)] if model == [] else model
        if got != model:
            res.model_mismatches.append(dict(case=case, impl=str(got), model=str(model)))
        if got != spec:
            res.violations.append(dict(sig={**sig, "what": "wrong-positions"}, case=case, observed=str(got), expected=str(spec),
                                       what=f"{kind} positions differ from the per-group definition"))

    # ---- API level
    n_api = 300 if tier == "quick" else 2500
    for t in range(n_api):
        L = rng.randint(1, 12)
        kk = rng.choice(["str", "int", "float"])
        labels = {"str": ["b", "a", "c", None], "int": [3, 1, 2, 1], "float": [2.5, 1.5, float("nan"), 0.5]}[kk]
        keys = [rng.choice(labels) for _ in range(L)]
        if kk == "str":
            key_arr = np.array(keys, dtype=object)
            isnull = [k is None for k in keys]
        elif kk == "float":
            key_arr = np.array(keys, dtype="float64")
            isnull = [k != k for k in keys]
        else:
            key_arr = np.array(keys, dtype="int64")
            isnull = [False] * L
        order = sorted({k for k, nl in zip(keys, isnull) if not nl})
        codes = [-1 if nl else order.index(k) for k, nl in zip(keys, isnull)]
        index = [rng.randint(0, 6) for _ in range(L)]
        kind = rng.choice(["head", "tail", "nth"])
        n = rng.randint(0, 4) if kind != "nth" else rng.randint(-4, 4)
        two_d = rng.random() < 0.3
        vals = [rng.randint(-50, 50) for _ in range(L)]
        if two_d:
            values = pd.DataFrame({"x": vals, "y": [v * 2 for v in vals]}, index=index)
        else:
            values = pd.Series(vals, index=index, name="v")
        exp_pos = expected_api(codes, kind, n)
        # the grouping may have been used before: fill its caches / re-organise its representation first
        warm = rng.choice([None, None, "groups", "groups", "apply", "rolling_by_groups", "sum_transform", "head"])
        case = dict(level="api", kind=kind, keys=[None if nl else k for k, nl in zip(keys, isnull)], index=index, values=vals, n=n, two_d=two_d, warmed_with=warm)
        res.note_case(repr(case), len(order) >= 2 or any(isnull))
        res.count("api_kind", kind); res.count("api_keytype", kk); res.count("warmed_with", str(warm))
        if t % 97 == 0:
            res.sample(case)
        # the key may be factorized chunk by chunk (in production: >= 1M rows, or an Arrow ChunkedArray): the per-chunk codes
        # and pointers then reach head / tail / nth unless an earlier operation unified them
        route = rng.choice(["whole", "whole", "chunked", "chunked", "arrow-chunks"])
        if route == "arrow-chunks" and (kk == "str" or L < 2):
            route = "chunked"
        case["route"] = route
        res.count("api_route", route)
        sig = dict(level="api", kind=kind, warmed=warm is not None, route=route)
        try:
            if route == "arrow-chunks":
                import pyarrow as pa
                cut = rng.randint(1, L - 1)
                parts = [pa.array(key_arr[:cut], from_pandas=True), pa.array(key_arr[cut:], from_pandas=True)]
                with api.strategy(chunk_threshold=None):
                    gbo = GroupBy(pa.chunked_array(parts))
                values = values.reset_index(drop=True)
                index = list(range(L))
                case["index"] = index
            else:
                with api.strategy(chunk_threshold=4 if route == "chunked" else None):
                    gbo = GroupBy(pd.Series(key_arr, index=index))
            if warm is not None:
                wv = pd.Series(np.arange(L, dtype="float64"), index=index)
                try:
                    if warm == "groups":
                        gbo.groups
                    elif warm == "apply":
                        gbo.apply(wv, np.cumsum)
                    elif warm == "rolling_by_groups":
                        gbo.rolling_sum(wv, 2, min_periods=1, index_by_groups=True)
                    elif warm == "sum_transform":
                        gbo.sum(wv, transform=True)
                    else:
                        gbo.head(wv, 1, keep_input_index=True)
                except Exception:  # noqa: BLE001
                    pass
            out = getattr(gbo, kind)(values, n, keep_input_index=True)
        except Exception as e:  # noqa: BLE001
            res.violations.append(dict(sig={**sig, "what": "raised"}, case=case, observed=repr(e)[:300], expected=str(exp_pos), what=f"GroupBy.{kind} raised"))
            continue
        got_index = list(out.index)
        got_vals = out["x"].tolist() if two_d else out.tolist()
        exp_index = [index[p] for p in exp_pos]
        exp_vals = [vals[p] for p in exp_pos]
        ok = got_index == exp_index and got_vals == exp_vals
        if two_d and ok:
            ok = out["y"].tolist() == [2 * v for v in exp_vals]
        if not ok:
            res.violations.append(dict(sig={**sig, "what": "wrong-rows"}, case=case, observed=str((got_index, got_vals)), expected=str((exp_index, exp_vals)),
                                       what=f"GroupBy.{kind}(keep_input_index=True) did not return the requested rows in original order"))

    # ---- big groups (thorough; two sizes in quick)
    sizes = [32767, 32768, 65535, 65536, 70000] if tier == "thorough" else [32768, 65536]
    for size in sizes:
        codes = np.zeros(size + 3, dtype="int64")
        codes[[1, size // 2, size]] = 1
        for n in [0, size - 4, -(size - 4), 32768, -32768, 65535]:
            exp = []
            for g in (0, 1):
                ps = np.nonzero(codes == g)[0]
                exp.append(int(ps[n]) if -len(ps) <= n < len(ps) else -1)
            try:
                got = [int(x) for x in nbf._find_nth(codes, 2, n, None)]
            except Exception as e:  # noqa: BLE001
                got = repr(e)[:100]
            case = dict(level="kernel-big", size=size, n=n)
            res.note_case(repr(case), True)
            res.count("big", size)
            if got != exp:
                res.violations.append(dict(sig=dict(level="kernel-big", kind="nth"), case=case, observed=str(got), expected=str(exp),
                                           what="nth wrong on a large group"))
        for fwd in (True, False):
            got = np.asarray(nbf._find_first_or_last_n(codes, 2, 3, None, fwd))
            ps0 = np.nonzero(codes == 0)[0]; ps1 = np.nonzero(codes == 1)[0]
            exp = [list(ps0[:3]), list(ps1[:3])] if fwd else [list(ps0[-3:]), list(ps1[-3:])]
            case = dict(level="kernel-big", size=size, forward=fwd)
            res.note_case(repr(case), True)
            if got.tolist() != [[int(x) for x in r] for r in exp]:
                res.violations.append(dict(sig=dict(level="kernel-big", kind="firstlast"), case=case, observed=str(got.tolist()), expected=str(exp),
                                           what="head/tail positions wrong on a large group"))


def replay(payload):
    return False, "replay: re-run ./bin/check C15 (cases are deterministic for a given VERIF_SEED); stored case: " + str(payload.get("case"))
