"""C05 — a mask is equivalent to filtering the rows first.

Every case runs the real operation twice: once with mask=m on the full data, once
without a mask on keys[m], values[m] (NumPy indexing semantics for boolean, slice and
positional masks).  Reductions must report the same labels and numbers; row-aligned
operations must give, at every selected row, the value they give on the filtered data.
Both plain and chunk-factorized key representations are used (the mask is then split
per key chunk).  The Coq side proves the same statement for the code-shaped models of
every scan kernel (Proofs/RowGeneric.v) and for the reduction dispatch (C04)."""
from __future__ import annotations

import random
from fractions import Fraction

import numpy as np
import pandas as pd

from ..common import Driver, log
from .. import api
from ..kernels import selected_positions

RED = ["size", "count", "sum", "mean", "min", "max", "first", "last", "var", "median", "agg_sum"]
ROW = ["cumsum", "cummin", "cummax", "cumcount", "rolling_sum", "rolling_mean", "rolling_min", "rolling_max", "shift", "diff", "ema", "ema_timed"]
VALS = [None, Fraction(1), Fraction(2), Fraction(-3), Fraction(1, 2), Fraction(5, 4), Fraction(7)]
HALFLIFE_NS = 1_000_000_000


def take(lst, mask):
    return [lst[i] for i in selected_positions(len(lst), mask)]


def gen_case(rng, tier, kind):
    n = rng.randint(2, 9 if tier == "quick" else 13)
    nkeys = rng.choice([1, 1, 2])
    nlab = rng.choice([2, 3])
    null_rate = rng.choice([0, 0, 0.2])
    keycols = [[None if rng.random() < null_rate else rng.randrange(nlab) for _ in range(n)] for _ in range(nkeys)]
    kinds = []
    for col in keycols:
        kinds.append(rng.choice([k for k in ["int", "float", "str"] if api.kind_ok(col, k)]))
    vals = [rng.choice(VALS) for _ in range(n)]
    if kind == "red":
        op = rng.choice(RED)
        mk = rng.choice(["bool", "bool", "series", "slice", "idx", "idx_sorted", "allfalse"])
        if op in ("median",):
            mk = rng.choice(["bool", "series"])
    else:
        op = rng.choice(ROW)
        mk = rng.choice(["bool", "bool", "series"])
    if mk in ("bool", "series"):
        mask = ("b", [rng.random() < 0.6 for _ in range(n)])
    elif mk == "allfalse":
        mask = ("b", [False] * n)
    elif mk == "slice":
        mask = ("s", rng.choice([None, 0, 1, 2, 3, -1, -3, -n]), rng.choice([None, n, n - 1, -1, 3, n + 2]))
    elif mk == "idx_sorted":
        mask = ("i", sorted(rng.sample(range(n), rng.randint(0, n))))
    else:
        mask = ("i", [rng.randrange(-n, n) for _ in range(rng.randint(0, n))])
    chunked = n >= 4 and rng.random() < 0.4 and nkeys == 1
    params = {}
    if op.startswith("rolling"):
        params["window"] = rng.randint(1, 3)
        params["min_periods"] = rng.randint(1, params["window"])
    if op in ("shift", "diff"):
        params["window"] = rng.randint(1, 2)
    if op == "ema":
        params["alpha"] = rng.choice([0.5, 0.25, 1.0])
    if op == "ema_timed":
        t, times = 0, []
        for _ in range(n):
            t += rng.choice([0, 1, 1, 2, 3]) * HALFLIFE_NS
            times.append(t)
        params["times"] = times
    if op == "var":
        params["ddof"] = rng.choice([0, 1])
    return dict(keycols=keycols, kinds=kinds, vals=vals, mask=mask, mk=mk, op=op, chunked=chunked, params=params, threads=rng.random() < 0.35)


def build(GroupBy, keycols, kinds, chunked):
    keys = [api.make_key(col, kind, "numpy") for col, kind in zip(keycols, kinds)]
    if chunked:
        with api.strategy(chunk_threshold=4):
            gb = GroupBy(keys[0])
    else:
        gb = GroupBy(keys if len(keys) > 1 else keys[0])
    return gb


def call_op(gb, op, vals, mask_arg, params):
    v = api.make_values(vals, "f8")
    if op == "size":
        return gb.size(mask=mask_arg)
    if op in ("count", "sum", "mean", "min", "max", "first", "last", "median"):
        return getattr(gb, op)(v, mask=mask_arg)
    if op == "var":
        return gb.var(v, mask=mask_arg, ddof=params["ddof"])
    if op == "agg_sum":
        return gb.agg(v, "sum", mask=mask_arg)
    if op in ("cumsum", "cummin", "cummax"):
        return getattr(gb, op)(v, mask=mask_arg)
    if op == "cumcount":
        return gb.cumcount(mask=mask_arg)
    if op.startswith("rolling"):
        return getattr(gb, op)(v, params["window"], min_periods=params["min_periods"], mask=mask_arg)
    if op in ("shift", "diff"):
        return getattr(gb, op)(v, params["window"], mask=mask_arg)
    if op == "ema":
        return gb.ema(v, alpha=params["alpha"], mask=mask_arg)
    if op == "ema_timed":
        times = np.array(params["times"], dtype="int64").view("datetime64[ns]")
        return gb.ema(v, halflife="1s", times=times, mask=mask_arg)
    raise ValueError(op)


def close(a, b, approx):
    if a is None or b is None:
        return a is None and b is None
    if a == b:
        return True
    if approx:
        fa, fb = float(a), float(b)
        return abs(fa - fb) <= 1e-9 * max(1.0, abs(fa), abs(fb))
    return False


def run_case(GroupBy, c):
    n = len(c["vals"])
    op, mask = c["op"], c["mask"]
    sel = selected_positions(n, mask)
    sig = dict(level="api", op=op, mask=c["mk"], chunked=c["chunked"], timed=(op == "ema_timed"), threads=bool(c.get("threads")))
    m = api.make_mask(mask)
    if c["mk"] == "series":
        m = pd.Series(m)
    try:
        gb = build(GroupBy, c["keycols"], c["kinds"], c["chunked"])
        # also with several kernel threads (rows_per_thread=2): the mask is then split between the threads
        with api.strategy(chunk_threshold=4 if c["chunked"] else None, rows_per_thread=2 if c.get("threads") else None):
            masked = call_op(gb, op, c["vals"], m, c["params"])
    except Exception as e:  # noqa: BLE001
        return [dict(sig={**sig, "what": "raised"}, what=f"{op} with mask raised {e!r}"[:300], observed=repr(e)[:200], expected="a result")]
    fkeys = [take(col, mask) for col in c["keycols"]]
    fvals = take(c["vals"], mask)
    fparams = dict(c["params"])
    if "times" in fparams:
        fparams["times"] = take(fparams["times"], mask)
    row_aligned = op in ROW
    approx = op in ("ema", "ema_timed", "var", "rolling_mean", "mean")
    if len(fvals) == 0:
        if row_aligned:
            return []
        got = api.canon_series(masked)
        if len(got) != 0:
            return [dict(sig={**sig, "what": "labels"}, what=f"{op}: nothing is selected but labels are reported", observed=str(masked.index.tolist()), expected="no label")]
        return []
    try:
        fgb = build(GroupBy, fkeys, c["kinds"], False)
        filtered = call_op(fgb, op, fvals, None, fparams)
    except Exception as e:  # noqa: BLE001
        return [dict(sig={**sig, "what": "filtered-raised"}, what=f"{op} on the filtered data raised {e!r}"[:300], observed=repr(e)[:200], expected="a result")]
    if row_aligned:
        mv = api.canon_series(masked)
        fv = api.canon_series(filtered)
        if len(mv) != n or len(fv) != len(sel):
            return [dict(sig={**sig, "what": "length"}, what=f"{op}: output lengths {len(mv)}/{len(fv)} for {n} rows / {len(sel)} selected", observed=str(len(mv)), expected=str(n))]
        bad = [i for j, i in enumerate(sel) if not close(mv[i], fv[j], approx)]
        if bad:
            return [dict(sig={**sig, "what": "mask-vs-filter"}, what=f"{op}: masked call differs from the filtered call at selected rows {bad}",
                         observed=str([None if mv[i] is None else float(mv[i]) for i in sel]), expected=str([None if x is None else float(x) for x in fv]))]
        return []
    mr = dict(zip(api.index_to_ranks(masked.index, c["kinds"]), api.canon_series(masked)))
    fr = dict(zip(api.index_to_ranks(filtered.index, c["kinds"]), api.canon_series(filtered)))
    if set(mr) != set(fr):
        return [dict(sig={**sig, "what": "labels"}, what=f"{op}: labels with mask {sorted(mr, key=str)} != labels of the filtered data {sorted(fr, key=str)}",
                     observed=str(sorted(mr, key=str)), expected=str(sorted(fr, key=str)))]
    bad = [k for k in mr if not close(mr[k], fr[k], approx)]
    if bad:
        return [dict(sig={**sig, "what": "mask-vs-filter"}, what=f"{op}: masked call differs from the filtered call at labels {sorted(bad, key=str)}",
                     observed=str({str(k): (None if mr[k] is None else float(mr[k])) for k in bad}), expected=str({str(k): (None if fr[k] is None else float(fr[k])) for k in bad}))]
    if list(mr) != list(fr):
        return [dict(sig={**sig, "what": "order"}, what=f"{op}: label order differs", observed=str(list(mr)), expected=str(list(fr)))]
    return []


def case_json(c):
    return dict(keys=c["keycols"], key_kinds=c["kinds"], values=[None if v is None else str(v) for v in c["vals"]], mask=c["mask"], mask_kind=c["mk"],
                op=c["op"], chunked=c["chunked"], params=c["params"], threads=bool(c.get("threads")))


def mask_container_sweep(res, GroupBy):
    """One fixed dataset: every operation that takes mask= is run with the same boolean mask in every container (NumPy, pandas,
    polars, pyarrow, chunked pyarrow, pandas masked 'boolean', Arrow-backed pandas) - and, where positions are accepted, with
    the same positions in every container and integer width - and compared with the NumPy-mask call."""
    import polars as pl
    import pyarrow as pa
    k = np.array([1, 0, 1, -5, 2, 0, 1, 2])
    v = np.array([1., np.nan, 4, 8, 16, 32, 64, 128])
    mb = np.array([True, True, False, True, True, False, True, True])
    pos = np.flatnonzero(mb)
    ops = {
        "sum": lambda gb, m: gb.sum(v, mask=m), "mean": lambda gb, m: gb.mean(v, mask=m), "size": lambda gb, m: gb.size(mask=m), "first": lambda gb, m: gb.first(v, mask=m),
        "var": lambda gb, m: gb.var(v, mask=m), "median": lambda gb, m: gb.median(v, mask=m), "quantile": lambda gb, m: gb.quantile(v, [0.5], mask=m),
        "agg": lambda gb, m: gb.agg(v, ["sum", "max"], mask=m), "sum_margins": lambda gb, m: gb.sum(v, mask=m, margins=True), "sum_transform": lambda gb, m: gb.sum(v, mask=m, transform=True),
        "cumsum": lambda gb, m: gb.cumsum(v, mask=m), "cummax": lambda gb, m: gb.cummax(v, mask=m), "cumcount": lambda gb, m: gb.cumcount(mask=m),
        "rolling_sum": lambda gb, m: gb.rolling_sum(v, 2, min_periods=1, mask=m), "rolling_max": lambda gb, m: gb.rolling_max(v, 2, min_periods=1, mask=m),
        "shift": lambda gb, m: gb.shift(v, 1, mask=m), "diff": lambda gb, m: gb.diff(v, 1, mask=m), "ema": lambda gb, m: gb.ema(v, alpha=0.5, mask=m),
        "head": lambda gb, m: gb.head(v, 1, mask=m), "tail": lambda gb, m: gb.tail(v, 1, mask=m), "nth": lambda gb, m: gb.nth(v, 0, mask=m),
        "apply": lambda gb, m: gb.apply(v, np.nanmax, mask=m), "ratio": lambda gb, m: gb.ratio(v, v, mask=m), "density": lambda gb, m: gb.density(mask=m),
    }

    def canon(r):
        if isinstance(r, (pl.Series, pl.DataFrame)):
            r = r.to_pandas()
        if isinstance(r, pd.DataFrame):
            return [canon(r[c]) for c in r.columns]
        return (list(map(str, r.index.tolist())), [None if pd.isna(x) else round(float(x), 9) for x in r.tolist()])

    bool_masks = {"pandas": pd.Series(mb), "polars": pl.Series(mb), "pyarrow": pa.array(mb), "pyarrow_chunked": pa.chunked_array([pa.array(mb[:3]), pa.array(mb[3:])]),
                  "pandas_boolean": pd.Series(mb, dtype="boolean"), "pandas_arrow": pd.Series(mb, dtype="bool[pyarrow]")}
    pos_masks = {"pandas": pd.Series(pos), "polars": pl.Series(pos), "int32": pos.astype("int32"), "uint8": pos.astype("uint8"), "pyarrow": pa.array(pos), "index": pd.Index(pos)}
    for name, f in ops.items():
        def run_with(m):
            try:
                return canon(f(GroupBy(k), m))
            except Exception as e:  # noqa: BLE001
                return "raised " + type(e).__name__
        ref_b, ref_p = run_with(mb), run_with(pos)
        for kind, masks, ref in (("boolean", bool_masks, ref_b), ("positions", pos_masks, ref_p)):
            for cont, m in masks.items():
                case = dict(stream="mask-containers", op=name, mask_kind=kind, mask_container=cont)
                res.note_case(repr(case), True)
                res.count("mask_container", kind + ":" + cont)
                r = run_with(m)
                if r != ref:
                    res.violations.append(dict(sig=dict(level="api", stream="mask-containers", what="differs-from-numpy-mask", op=name, mask_kind=kind, mask_container=cont), case=case,
                                               observed=str(r)[:300], expected=str(ref)[:300], what=f"{name}: the {kind} mask in {cont} gives another result than the same mask as a NumPy array"))
        if not isinstance(ref_p, str) and ref_p != ref_b:
            case = dict(stream="mask-containers", op=name, mask_kind="positions-vs-boolean")
            res.violations.append(dict(sig=dict(level="api", stream="mask-containers", what="positions-differ-from-boolean", op=name), case=case, observed=str(ref_p)[:300], expected=str(ref_b)[:300],
                                       what=f"{name}: the sorted positions of a boolean mask give another result than the boolean mask"))


def run(res, tier="quick", seed=0, widen=False):
    from groupby_lib import GroupBy

    rng = random.Random(seed * 7 + 5 + (1 if widen else 0))
    n_red = 1500 if tier == "quick" else 15000
    n_row = 1500 if tier == "quick" else 15000
    res.rule = ("seeded random logical datasets (1-2 keys, nulls in keys and values, 2-13 rows); reductions size/count/sum/mean/min/max/first/last/var/median/agg x "
                "masks boolean array / boolean Series / all-false / slice (negative bounds) / positions (sorted-unique, or arbitrary order with repeats and negatives); "
                "row-aligned cumsum/cummin/cummax/cumcount/rolling_*/shift/diff/ema/timed ema x boolean masks; plain and chunk-factorized keys; each case = masked call vs "
                "the same call on the filtered data; plus a sweep of every maskable operation over mask containers (pandas, polars, pyarrow, chunked, masked / Arrow-backed pandas; positions in every container and integer width) against the NumPy mask; non-trivial = mask drops at least one row and keeps at least one; distinct = canonical case")
    mask_container_sweep(res, GroupBy)
    cases = [gen_case(rng, tier, "red") for _ in range(n_red)] + [gen_case(rng, tier, "row") for _ in range(n_row)]
    # corpus: K1's witness
    cases.insert(0, dict(keycols=[[0] * 6], kinds=["int"], vals=[Fraction(x) for x in (1, 2, 3, 4, 5, 6)], mask=("b", [True, True, True, False, True, True]), mk="bool",
                         op="ema", chunked=False, params=dict(alpha=0.5)))
    for ci, c in enumerate(cases):
        n = len(c["vals"])
        sel = selected_positions(n, c["mask"])
        cj = case_json(c)
        res.note_case(repr(cj), 0 < len(set(sel)) < n or len(sel) != len(set(sel)))
        res.count("op", c["op"]); res.count("mask", c["mk"]); res.count("chunked", c["chunked"]); res.count("rows", n)
        res.count("selected_fraction", round(len(sel) / n, 1))
        if ci % 499 == 0:
            res.sample(cj)
        for v in run_case(GroupBy, c):
            v["case"] = cj
            res.violations.append(v)


def replay(payload):
    from groupby_lib import GroupBy
    c0 = payload["case"]
    c = dict(keycols=c0["keys"], kinds=c0["key_kinds"], vals=[None if v is None else Fraction(v) for v in c0["values"]],
             mask=None if c0["mask"] is None else tuple(c0["mask"]), mk=c0["mask_kind"], op=c0["op"], chunked=c0["chunked"], params=c0["params"], threads=c0.get("threads", False))
    v = run_case(GroupBy, c)
    return (not v), ("replay: " + (v[0]["what"] if v else "no violation on this input"))
