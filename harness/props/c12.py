"""C12 — the same data in any supported container or dtype gives the same answer.

One logical dataset (keys, values) is supplied in every container for the keys (NumPy, pandas
Series / Index / Categorical, Arrow-backed pandas, polars, pyarrow Array / ChunkedArray with
arbitrary chunk boundaries) and for the values (NumPy, pandas NumPy- and Arrow-backed, polars,
pyarrow Array / ChunkedArray), for value dtypes float64/32, int64/32/8, uint8, bool,
timedelta64 and datetime64 (ns/us/ms/s, tz-aware) — and every operation must give the labels
and numbers of the NumPy/NumPy reference.  Selection-type results (min, max, first, last,
cummin, cummax, shift, rolling min/max) must be elements of the input and keep its dtype
(integer width, bool, time unit, time zone); integer sums must not wrap within 64 bits."""
from __future__ import annotations

import random

import numpy as np
import pandas as pd
import polars as pl
import pyarrow as pa

from .. import api

OPS = ["size", "count", "sum", "mean", "min", "max", "first", "last", "cummin", "cummax", "cumsum", "shift", "rolling_max", "rolling_min", "t_max"]
SELECTION = {"min", "max", "first", "last", "cummin", "cummax", "shift", "rolling_max", "rolling_min", "t_max"}
VDT = ["float64", "float32", "int64", "int32", "int16", "int8", "uint64", "uint32", "uint16", "uint8", "bool", "m8[ns]", "m8[us]", "m8[s]", "M8[ns]", "M8[us]", "M8[s]", "M8[ns,UTC]", "M8[us,US/Eastern]"]
KEY_CONT = ["numpy", "pandas", "index", "polars", "arrow", "arrow_chunked", "pandas_arrow", "arrow_dict_chunked"]
VAL_CONT = ["numpy", "pandas", "pandas_arrow", "polars", "arrow", "arrow_chunked"]


def gen_case(rng, tier):
    n = rng.randint(2, 10 if tier == "quick" else 16)
    nlab = rng.choice([2, 3])
    col = [rng.randrange(nlab) for _ in range(n)]
    if rng.random() < 0.3:
        col[rng.randrange(n)] = None
    kind = rng.choice([k for k in ["int", "float", "str", "dt", "dttz", "date", "cat", "bool"] if api.kind_ok(col, k)])
    kcont = "pandas" if kind == "cat" else rng.choice(KEY_CONT if kind in ("int", "float", "str", "dt", "dttz", "date") else ["numpy", "pandas"])
    vdt = rng.choice(VDT)
    base = vdt.split("[")[0]
    has_null = base in ("float64", "float32", "m8", "M8") and rng.random() < 0.5
    if base in ("float64", "float32"):
        raw = [rng.choice([1.0, 2.0, -3.0, 0.5, 7.0]) for _ in range(n)]
    elif base in ("int64",):
        raw = [rng.choice([1, 2, -3, 2**53 + 1, 2**62, -2**62, 7]) for _ in range(n)]
    elif base == "uint64":
        # the upper half of the unsigned range has no int64 counterpart: nothing may detour through int64
        raw = [rng.choice([1, 2, 7, 2**53 + 1, 2**63 + 1, 2**63 + 7, 2**63, 2**64 - 1]) for _ in range(n)]
    elif base == "uint32":
        raw = [rng.choice([1, 2, 7, 2**31, 2**32 - 1, 100]) for _ in range(n)]
    elif base == "int16":
        raw = [rng.choice([1, 2, -3, 2**15 - 1, -2**15, 100]) for _ in range(n)]
    elif base == "uint16":
        raw = [rng.choice([1, 2, 7, 2**15, 2**16 - 1, 100]) for _ in range(n)]
    elif base == "int32":
        raw = [rng.choice([1, 2, -3, 2**31 - 1, 2**30]) for _ in range(n)]
    elif base == "int8":
        raw = [rng.choice([1, 2, -3, 127, 100]) for _ in range(n)]
    elif base == "uint8":
        raw = [rng.choice([1, 2, 255, 200, 0]) for _ in range(n)]
    elif base == "bool":
        raw = [rng.choice([0, 1]) for _ in range(n)]
    else:
        raw = [rng.choice([10, 20, 5, 1_600_000_000, 86_400 * 365 * 60 + 7]) for _ in range(n)]
    nulls = [has_null and rng.random() < 0.25 for _ in range(n)]
    vcont = rng.choice(VAL_CONT)
    if "," in vdt:
        vcont = rng.choice(["pandas", "pandas_arrow"])       # tz-aware: pandas containers
    op = rng.choice(OPS)
    if base in ("M8",) and op in ("sum", "mean", "cumsum"):
        op = rng.choice(["min", "max", "first", "last", "cummax", "shift"])
    if base == "bool" and op in ("rolling_max", "rolling_min", "shift"):
        op = "max"
    if base == "int64" and op in ("sum", "cumsum", "mean") and rng.random() < 0.35:
        # sums that pass exactly through the int64 minimum (the in-band null marker of timestamps) and come back
        # into range: two values of -2**62 in one group, everything else positive
        labs = [x for x in set(col) if x is not None and col.count(x) >= 2]
        if labs:
            g = rng.choice(sorted(labs))
            raw = [rng.choice([1, 2, 7, 2**53 + 1]) for _ in range(n)]
            i, j = rng.sample([k for k in range(n) if col[k] == g], 2)
            raw[i] = raw[j] = -2**62
    if op in ("sum", "cumsum", "mean") and base == "uint64":
        # unsigned sums: keep every sub-sum below 2**64
        tot = 0
        for i, v in enumerate(raw):
            if tot + v > 2**64 - 1:
                raw[i] = v = 1
            tot += v
    if op in ("sum", "cumsum", "mean") and base in ("int64", "m8"):
        # the property speaks of sums within the 64-bit range: keep every sub-sum (any group, any prefix) representable
        # - as int64 for integers, as nanoseconds for durations (the canonical form the results are compared in)
        unit = vdt.split("[")[1].rstrip("]") if "[" in vdt else ""
        scale = {"": 1, "ns": 1, "us": 10**3, "s": 10**9}[unit]
        pos = neg = 0
        for i, v in enumerate(raw):
            if v >= 0 and (pos + v) * scale > 2**63 - 1 or v < 0 and (neg + v) * scale < -2**63:
                raw[i] = v = 1
            if v >= 0:
                pos += v
            else:
                neg += v
    cuts = sorted(rng.sample(range(0, n + 1), rng.randint(0, min(3, n))))
    b = [0, *cuts, n]
    cuts2 = sorted(rng.sample(range(0, n + 1), rng.randint(0, min(3, n))))
    b2 = [0, *cuts2, n]
    return dict(warm=rng.choice([None, None, None] + api.WARM_OPS), col=col, kind=kind, kcont=kcont, vdt=vdt, raw=raw, nulls=nulls, vcont=vcont, op=op,
                key_chunks=[b[i + 1] - b[i] for i in range(len(b) - 1)], val_chunks=[x for x in [b2[i + 1] - b2[i] for i in range(len(b2) - 1)] if x] or [n])


def numpy_values(c):
    vdt = c["vdt"]
    base = vdt.split("[")[0]
    if base in ("float64", "float32"):
        return np.array([np.nan if nl else v for v, nl in zip(c["raw"], c["nulls"])], dtype=base)
    if base in ("m8", "M8"):
        unit = vdt.split("[")[1].rstrip("]").split(",")[0]
        arr = np.array(c["raw"], dtype="int64")
        arr = np.where(np.array(c["nulls"]), np.iinfo(np.int64).min, arr)
        return arr.view(f"{base}[{unit}]")
    return np.array(c["raw"], dtype=base)


def make_values(c, cont):
    arr = numpy_values(c)
    vdt = c["vdt"]
    tz = vdt.split(",")[1].rstrip("]") if "," in vdt else None
    if cont == "numpy":
        return arr
    ser = pd.Series(arr, name="v")
    if tz:
        ser = ser.dt.tz_localize("UTC").dt.tz_convert(tz)
    if cont == "pandas":
        return ser
    if cont == "pandas_arrow":
        return ser.astype(pd.ArrowDtype(pa.Array.from_pandas(ser).type))
    if cont == "polars":
        return pl.from_pandas(ser)
    pa_arr = pa.Array.from_pandas(ser)
    if cont == "arrow":
        return pa_arr
    pieces, st = [], 0
    for ln in c["val_chunks"]:
        pieces.append(pa_arr.slice(st, ln))
        st += ln
    return pa.chunked_array(pieces, type=pa_arr.type)


def call(gb, op, v):
    if op == "size":
        return gb.size()
    if op in ("count", "sum", "mean", "min", "max", "first", "last", "cummin", "cummax", "cumsum"):
        return getattr(gb, op)(v)
    if op == "shift":
        return gb.shift(v, 1)
    if op in ("rolling_max", "rolling_min"):
        return getattr(gb, op)(v, 2, min_periods=1)
    if op == "t_max":
        return gb.max(v, transform=True)
    raise ValueError(op)


def canon(out, kind, row_aligned):
    if isinstance(out, (pl.Series,)):
        out = out.to_pandas()
    vals = api.canon_series(out)
    if row_aligned:
        return vals
    return list(zip([r[0] for r in api.index_to_ranks(out.index, [kind])], vals))


def dtype_ok(out, c, cont):
    """selection results keep the input dtype"""
    vdt = c["vdt"]
    base = vdt.split("[")[0]
    dt = out.dtype
    if isinstance(out, pl.Series):
        out = out.to_pandas(); dt = out.dtype
    s = str(dt)
    if base in ("float64", "float32"):
        return (base in s) or ("double" in s and base == "float64") or ("float" in s and base == "float32" and "64" not in s), s
    if base in ("int64", "int32", "int16", "int8", "uint64", "uint32", "uint16", "uint8"):
        return (s.replace("[pyarrow]", "").lower() == base), s
    if base == "bool":
        return ("bool" in s), s
    unit = vdt.split("[")[1].rstrip("]").split(",")[0]
    tz = vdt.split(",")[1].rstrip("]") if "," in vdt else None
    if base == "m8":
        return (("timedelta" in s or "duration" in s) and f"[{unit}]" in s), s
    ok = ("datetime64" in s or "timestamp" in s) and unit in s
    if tz:
        ok = ok and (tz in s)
    return ok, s


def run_case(GroupBy, c):
    op = c["op"]
    row_aligned = op in ("cummin", "cummax", "cumsum", "shift", "rolling_max", "rolling_min", "t_max")
    sig = dict(level="api", op=op, vdt=c["vdt"], kcont=c["kcont"], vcont=c["vcont"], key_kind=c["kind"])
    try:
        ref_gb = GroupBy(api.make_key(c["col"], c["kind"], "numpy" if c["kind"] != "cat" else "pandas"))
        ref_v = make_values(c, "numpy" if "," not in c["vdt"] else "pandas")
        ref = canon(call(ref_gb, op, ref_v), c["kind"], row_aligned)
    except Exception as e:  # noqa: BLE001
        return [dict(sig={**sig, "what": "reference-raised", "exc": type(e).__name__}, what=f"{op} on the NumPy reference raised {e!r}"[:300], observed=repr(e)[:200], expected="a result")]
    try:
        from .c02 import build_key
        key = build_key(c["col"], c["kind"], c["kcont"], c["key_chunks"])
        gb = GroupBy(key)
        api.warm(gb, c.get("warm"), len(c["col"]))          # the grouping may have been used before
        v = make_values(c, c["vcont"])
        out = call(gb, op, v)
        got = canon(out, c["kind"], row_aligned)
    except Exception as e:  # noqa: BLE001
        return [dict(sig={**sig, "what": "raised", "exc": type(e).__name__}, what=f"{op} with keys in {c['kcont']} and {c['vdt']} values in {c['vcont']} raised {e!r}"[:300], observed=repr(e)[:200], expected=str(ref)[:200])]
    viol = []
    approx = op == "mean" or c["vdt"] == "float32"
    if not row_aligned:
        # the same labels and the same numbers; the ORDER of the labels is C11's subject (a dictionary-typed key
        # carries its own category order)
        got = sorted(got, key=lambda t: str(t[0])); ref = sorted(ref, key=lambda t: str(t[0]))
    # a temporal mean is truncated to the resolution of the container that holds the values: polars has no second
    # resolution (it stores [s] inputs as milliseconds), so there the two truncations may differ by less than one second
    slack = 10 ** 9 if (op == "mean" and c["vdt"].split("[")[0] in ("m8", "M8") and "[s" in c["vdt"] and c["vcont"] == "polars") else 0
    def close(a, b):
        if slack and a is not None and b is not None and abs(int(a) - int(b)) < slack:
            return True
        return _close(a, b, approx)
    same = len(got) == len(ref) and all((a[0] == b[0] and close(a[1], b[1])) if isinstance(a, tuple) else close(a, b) for a, b in zip(got, ref))
    if not same:
        viol.append(dict(sig={**sig, "what": "differs"}, what=f"{op}: keys in {c['kcont']} / values {c['vdt']} in {c['vcont']} differ from the NumPy reference", observed=str(got)[:400], expected=str(ref)[:400]))
    base = c["vdt"].split("[")[0]
    # the property asks rolling extremes / shift to be exact for floating-point and temporal inputs
    # (integers are deliberately down-cast to float64 there, nulls being NaN)
    exact_here = op in SELECTION and (op not in ("shift", "rolling_max", "rolling_min") or base in ("M8", "m8", "float64", "float32"))
    if exact_here and len(c["col"]) > 0:
        ok, s = dtype_ok(out, c, c["vcont"])
        if op in ("shift", "rolling_max", "rolling_min") and base in ("float64", "float32"):
            ok = True          # exactness (an input value) is what is asked of these; float32 -> float64 is exact
        if c["vcont"] == "polars" and "[s]" in c["vdt"]:
            ok = True          # polars has no second resolution: the container itself holds milliseconds
        if not ok:
            viol.append(dict(sig={**sig, "what": "dtype"}, what=f"{op} of {c['vdt']} values ({c['vcont']}) returned dtype {s}", observed=s, expected=c["vdt"]))
        # elements of the input (rows without a key carry the dtype's null marker, which need not be an input)
        inputs = set(api.canon_series(pd.Series(numpy_values(c)))) | {None}
        vals = [x[1] if isinstance(x, tuple) else x for x in got]
        if row_aligned:
            vals = [x for x, k in zip(vals, c["col"]) if k is not None]
        if c["vdt"] != "float32" and any(x not in inputs for x in vals):
            viol.append(dict(sig={**sig, "what": "not-an-input-value"}, what=f"{op} returned a value that is not an element of the input", observed=str(vals)[:300], expected=str(sorted(inputs, key=str))[:300]))
    if op in ("sum", "cumsum") and c["vdt"] in ("int64", "int32", "int16", "int8", "uint64", "uint32", "uint16", "uint8", "bool"):
        # exact integer sums within 64 bits
        codes, labels = api.logical_codes([c["col"]])
        if op == "sum":
            want = {}
            for i, k in enumerate(codes):
                if k >= 0:
                    want[labels[k][0]] = want.get(labels[k][0], 0) + int(c["raw"][i])
            wl = [(k, want[k]) for k in sorted(want)]
            if all((abs(v) < 2**63 or (c["vdt"] == "uint64" and 0 <= v < 2**64)) for _, v in wl) and [(a, int(b)) if b is not None else (a, b) for a, b in got] != wl:
                viol.append(dict(sig={**sig, "what": "integer-sum"}, what="integer sum is not exact within the 64-bit range", observed=str(got), expected=str(wl)))
    return viol


def _close(a, b, approx):
    if a is None or b is None:
        return a is None and b is None
    if a == b:
        return True
    if approx:
        fa, fb = float(a), float(b)
        return abs(fa - fb) <= 1e-6 * max(1.0, abs(fa), abs(fb))
    return False


# ------------------------------------------------------------------ operation sweep: every public operation x every container
def _sweep_canon(r, kind=None):
    if isinstance(r, dict):
        return {str(a): [int(x) for x in b] for a, b in r.items()}
    if isinstance(r, (pl.Series, pl.DataFrame)):
        r = r.to_pandas()
    if isinstance(r, pd.DataFrame):
        return [_sweep_canon(r[c], kind) for c in r.columns]
    def lab(x):
        if isinstance(x, tuple):
            return tuple(lab(y) for y in x)
        if isinstance(x, str) and x == "All":
            return "All"
        if kind is None or isinstance(x, (int, np.integer)) and kind not in ("int",):
            return str(x)
        return str(api.label_to_rank(x, kind))
    return ([lab(x) for x in r.index.tolist()], [None if pd.isna(x) else round(float(x), 9) for x in r.tolist()])


def sweep_stream(res, rng, tier, GroupBy):
    """One fixed dataset; every public operation (also those the random stream does not draw: median, quantile, var / std, agg,
    ratio, density, apply, ema, head / tail / nth, groups, rolling sums, margins, transform, observed_only=False) is run with the
    keys in every container x key kind and with the values in every container, and compared with the pandas-key / NumPy-value call."""
    col = [1, 0, 1, None, 2, 0, 1]
    v = np.array([1., 2, 4, 8, 16, 32, 64])
    m = np.array([True, True, False, True, True, True, True])
    key_ops = {
        "sum": lambda gb: gb.sum(v), "mean_margins": lambda gb: gb.mean(v, margins=True), "sum_transform": lambda gb: gb.sum(v, transform=True), "sum_mask": lambda gb: gb.sum(v, mask=m),
        "median": lambda gb: gb.median(v), "quantile": lambda gb: gb.quantile(v, [0.25, 0.5]), "var": lambda gb: gb.var(v), "agg": lambda gb: gb.agg(v, ["sum", "max"]),
        "cumsum": lambda gb: gb.cumsum(v), "cumcount": lambda gb: gb.cumcount(), "rolling_sum": lambda gb: gb.rolling_sum(v, 2, min_periods=1),
        "rolling_by_groups": lambda gb: gb.rolling_max(v, 2, min_periods=1, index_by_groups=True), "shift": lambda gb: gb.shift(v, 1), "ema": lambda gb: gb.ema(v, alpha=0.5),
        "head": lambda gb: gb.head(v, 1), "tail": lambda gb: gb.tail(v, 1), "nth": lambda gb: gb.nth(v, 1), "size": lambda gb: gb.size(), "groups": lambda gb: gb.groups,
        "apply_vec": lambda gb: gb.apply(v, lambda x: np.array([x.min(), x.max()])), "ratio": lambda gb: gb.ratio(v, v * 2), "density": lambda gb: gb.density(),
        "first_all_labels": lambda gb: gb.first(v, observed_only=False),
    }
    for kind in ["str", "float", "dt", "dttz", "date"]:
        ref = {}
        for cont in ["pandas", "numpy", "polars", "arrow", "arrow_chunked", "pandas_arrow", "index"]:
            for name, f in key_ops.items():
                case = dict(stream="sweep-keys", key_kind=kind, key_container=cont, op=name, keys=col)
                res.note_case(repr(case), True)
                res.count("sweep", "keys")
                try:
                    r = _sweep_canon(f(GroupBy(api.make_key(col, kind, cont, chunks=[3, 4]))), kind)
                except Exception as e:  # noqa: BLE001
                    r = "raised " + type(e).__name__ + ": " + str(e)[:80]
                if cont == "pandas":
                    ref[name] = r
                elif r != ref[name]:
                    res.violations.append(dict(sig=dict(stream="sweep-keys", what="differs-from-pandas-key", op=name, key_kind=kind, key_container=cont), case=case, observed=str(r)[:300], expected=str(ref[name])[:300],
                                               what=f"{name} with a {kind} key in {cont} differs from the same key as a pandas Series"))
    k = np.array([1, 0, 1, -5, 2, 0, 1])
    vals = [1.0, None, 4.0, 8.0, 16.0, 32.0, 64.0]
    val_ops = {
        "median": lambda gb, x: gb.median(x), "quantile": lambda gb, x: gb.quantile(x, [0.25, 0.5]), "var": lambda gb, x: gb.var(x), "std_transform": lambda gb, x: gb.std(x, transform=True),
        "agg": lambda gb, x: gb.agg(x, ["sum", "max"]), "rolling_sum": lambda gb, x: gb.rolling_sum(x, 2, min_periods=1), "rolling_mean_mask": lambda gb, x: gb.rolling_mean(x, 2, min_periods=1, mask=m),
        "diff": lambda gb, x: gb.diff(x, 1), "ema": lambda gb, x: gb.ema(x, alpha=0.5), "head": lambda gb, x: gb.head(x, 1), "tail": lambda gb, x: gb.tail(x, 2), "nth": lambda gb, x: gb.nth(x, 1),
        "apply": lambda gb, x: gb.apply(x, np.nanmax), "ratio": lambda gb, x: gb.ratio(x, x), "sum_margins": lambda gb, x: gb.sum(x, margins=True), "mean_transform": lambda gb, x: gb.mean(x, transform=True),
        "cumsum_noskip": lambda gb, x: gb.cumsum(x, skip_na=False), "last_mask": lambda gb, x: gb.last(x, mask=m),
    }
    for dt in ["f8", "i8"]:
        vv = [(x if x is not None else (None if dt == "f8" else 3)) for x in vals]
        vv = [None if x is None else (x if dt == "f8" else int(x)) for x in vv]
        ref = {}
        for cont, chunks in [("numpy", None), ("pandas", None), ("polars", None), ("arrow", None), ("arrow_chunked", [2, 5]), ("arrow_chunked", [4, 1, 2]), ("pandas_arrow", None)]:
            for name, f in val_ops.items():
                case = dict(stream="sweep-values", value_dtype=dt, value_container=cont, chunks=chunks, op=name, values=vv)
                res.note_case(repr(case), True)
                res.count("sweep", "values")
                try:
                    r = _sweep_canon(f(GroupBy(k), api.make_values(vv, dt, cont, chunks=chunks)))
                except Exception as e:  # noqa: BLE001
                    r = "raised " + type(e).__name__ + ": " + str(e)[:80]
                if cont == "numpy":
                    ref[name] = r
                elif r != ref[name]:
                    res.violations.append(dict(sig=dict(stream="sweep-values", what="differs-from-numpy-values", op=name, value_dtype=dt, value_container=cont), case=case, observed=str(r)[:300],
                                               expected=str(ref[name])[:300], what=f"{name} with {dt} values in {cont} differs from the same values as a NumPy array"))


def run(res, tier="quick", seed=0, widen=False):
    from groupby_lib import GroupBy
    rng = random.Random(seed * 53 + 12 + (1 if widen else 0))
    n_cases = 3000 if tier == "quick" else 30000
    res.rule = ("seeded random logical datasets (2-16 rows, one key of six kinds with nulls) x 7 key containers x 6 value containers (pyarrow chunk boundaries arbitrary and "
                "misaligned) x 15 value dtypes (float64/32, int64/32/8, uint8, bool, timedelta and datetime in ns/us/s, tz-aware) x 15 operations; each case compared with the "
                "NumPy/NumPy reference; selection-type results: dtype kept and values are input elements; integer sums exact; plus an operation sweep on a fixed dataset: every public operation (median, quantile, var, agg, ratio, density, apply, ema, head/tail/nth, groups, rolling sums, margins, transform, all labels) x every key container x five key kinds, and x every value container; non-trivial: container differs from the reference; distinct = canonical case")
    sweep_stream(res, rng, tier, GroupBy)
    for ci in range(n_cases):
        c = gen_case(rng, tier)
        res.note_case(repr(c), c["kcont"] != "numpy" or c["vcont"] != "numpy")
        res.count("op", c["op"]); res.count("value_dtype", c["vdt"]); res.count("key_container", c["kcont"]); res.count("value_container", c["vcont"]); res.count("key_kind", c["kind"])
        if ci % 499 == 0:
            res.sample(c)
        for v in run_case(GroupBy, c):
            v["case"] = c
            res.violations.append(v)


def replay(payload):
    from groupby_lib import GroupBy
    v = run_case(GroupBy, payload["case"])
    return (not v), ("replay: " + (v[0]["what"] if v else "no violation on this input"))
