"""C16 — variance, quantiles and composite statistics match their definitions.

  var/std   vs the two-pass sample variance of each group's non-null selected values computed in
            exact rational arithmetic; tolerance = the property's bound c*n*u*max|x|^2 (u = 2^-53);
            null when count - ddof <= 0; data with offsets up to 1e8 and magnitudes 1e-6..1e6
  median/quantile vs NumPy on the group's selected values (masks, unsorted first appearance,
            groups without selected rows)
  apply     user functions returning a scalar / a fixed-length vector / a vector aligned with the
            input: equals calling the function on each group's selected values in row order
  agg       a list of aggregations == the individual calls side by side
  ratio     == sum / sum;   density (single key) == group shares in percent, adding up to 100"""
from __future__ import annotations

import math
import random
from fractions import Fraction

import numpy as np
import pandas as pd

from .. import api
from ..common import Driver, sx
from ..kernels import selected_positions

U = 2.0 ** -53
BOUND_CACHE = {}
DRV = None


def fr(q):
    q = Fraction(q)
    return str(q.numerator) if q.denominator == 1 else f"{q.numerator}/{q.denominator}"


def gen_keys(rng, n, allow_null=True):
    nlab = rng.choice([2, 3, 4])
    col = [rng.randrange(nlab) for _ in range(n)]
    if allow_null and rng.random() < 0.4:
        for _ in range(rng.randint(1, 2)):
            col[rng.randrange(n)] = None
    kind = rng.choice([k for k in ["float", "str", "int", "dt", "dttz", "date"] if api.kind_ok(col, k)])
    return col, kind


def group_positions(col, mask, n):
    sel = set(selected_positions(n, mask))
    labs = sorted({c for c in col if c is not None})
    return {lab: [i for i in range(n) if col[i] == lab and i in sel] for lab in labs}


def var_stream(res, rng, tier, GroupBy):
    for t in range(600 if tier == "quick" else 6000):
        n = rng.randint(1, 14)
        col, kind = gen_keys(rng, n)
        scale = rng.choice([1e-6, 1e-3, 1.0, 1e3, 1e6])
        offset = rng.choice([0.0, 0.0, 1e4, 1e8, -1e8]) * (1 if scale >= 1 else 0)
        dtype = rng.choice(["float64", "float64", "float32", "int64"])
        vals = []
        for _ in range(n):
            if rng.random() < 0.15 and dtype != "int64":
                vals.append(None)
            elif dtype == "int64":
                vals.append(int(rng.choice([0, 1e4, 2**31]) + rng.randint(-1000, 1000)))
            else:
                vals.append(float(np.float32(offset + scale * rng.uniform(-1, 1))) if dtype == "float32" else offset + scale * rng.uniform(-1, 1))
        ddof = rng.choice([0, 1])
        mask = None if rng.random() < 0.6 else ("b", [rng.random() < 0.7 for _ in range(n)])
        op = rng.choice(["var", "std"])
        arr = np.array([np.nan if v is None else v for v in vals], dtype=dtype)
        case = dict(stream="var", op=op, keys=col, key_kind=kind, values=[None if v is None else repr(v) for v in vals], dtype=dtype, ddof=ddof, mask=mask)
        res.note_case(repr(case), True)
        res.count("stream", "var"); res.count("var_dtype", dtype); res.count("ddof", ddof)
        if t % 199 == 0:
            res.sample(case)
        try:
            gb = GroupBy(api.make_key(col, kind, "numpy"))
            api.warm(gb, rng.choice([None, None, None] + api.WARM_OPS), n)          # the grouping may have been used before
            m = None if mask is None else np.array(mask[1], dtype=bool)
            out = getattr(gb, op)(arr, mask=m, ddof=ddof)
        except Exception as e:  # noqa: BLE001
            res.violations.append(dict(sig=dict(stream="var", what="raised"), case=case, observed=repr(e)[:200], expected="variances", what=f"{op} raised"))
            continue
        got = dict(zip([r[0] for r in api.index_to_ranks(out.index, [kind])], out.tolist()))
        gp = group_positions(col, mask, n)
        for lab, pos in gp.items():
            if not pos:
                if lab in got:
                    res.violations.append(dict(sig=dict(stream="var", what="label"), case=case, observed=str(got), expected="no such label", what="a group without selected rows is reported"))
                continue
            xs = [Fraction(float(arr[i])) for i in pos if vals[i] is not None]
            k = len(xs)
            g = got.get(lab, "missing")
            if g == "missing":
                res.violations.append(dict(sig=dict(stream="var", what="label"), case=case, observed=str(got), expected=f"label {lab}", what="an observed label is missing"))
                continue
            if k - ddof <= 0:
                if not (g is None or (isinstance(g, float) and math.isnan(g))):
                    res.violations.append(dict(sig=dict(stream="var", what="too-few-not-null", dtype=dtype), case=case, observed=str(g), expected="null", what=f"{op} of {k} value(s) with ddof={ddof} is not null"))
                continue
            mean = sum(xs) / k
            v = sum((x - mean) ** 2 for x in xs) / (k - ddof)
            want = float(v) if op == "var" else math.sqrt(float(v))
            mx = max(abs(float(x)) for x in xs)
            u = 2.0 ** -24 if dtype == "float32" else U        # float32 data are accumulated in float32
            # the PROVED bound (Coq: Proofs/VarFloat.var_error, extracted var_bound): standard model of rounding with unit
            # roundoff u, sums in any bracketing of height <= k + 1 (+1: integer sums are rounded once when converted)
            ub = Fraction(u)
            key = (str(ub), k, ddof)
            if key not in BOUND_CACHE:
                # evaluated at M = 1; var_bound(M) = M^2 * var_bound(1) is a theorem (C16_bound_is_proportional_to_squared_magnitude)
                r = DRV.ask([sx(["var_bound", fr(ub), k, fr(Fraction(1, k)), fr(Fraction(1, k - ddof)), "1", k + 1, k + 1])])[0]
                BOUND_CACHE[key] = float(Fraction(r)) * (1 + 1e-9)
            bound = BOUND_CACHE[key] * mx * mx * (1 + 1e-9) + U * abs(float(v)) + 1e-300      # + conversion of the exact reference to float
            if op == "std":
                # d(sqrt v) <= dv / (2 sqrt v); near v = 0 use sqrt of the bound
                bound = math.sqrt(bound) if want * want <= bound else bound / (2 * want) + U * want
            if g is None or math.isnan(g) or abs(g - want) > bound:
                res.violations.append(dict(sig=dict(stream="var", what="value", dtype=dtype), case=case, observed=str(g), expected=f"{want} +- {bound}", what=f"{op} of label {lab} is outside the rounding bound"))


def quantile_stream(res, rng, tier, GroupBy):
    for t in range(400 if tier == "quick" else 4000):
        n = rng.randint(1, 12)
        col, kind = gen_keys(rng, n)
        vals = [rng.choice([1.0, 2.0, -3.0, 0.5, 7.0, 4.0]) for _ in range(n)]
        mk = rng.choice(["none", "none", "bool", "groupout"])
        labs = sorted({c for c in col if c is not None})
        if mk == "none" or not labs:
            mask = None
        elif mk == "bool":
            mask = ("b", [rng.random() < 0.65 for _ in range(n)])
        else:
            g = rng.choice(labs)
            mask = ("b", [col[i] != g for i in range(n)])
        op = rng.choice(["median", "quantile", "quantile1"])
        q = [0.25, 0.5, 0.9] if op == "quantile" else [0.5]
        case = dict(stream="quantile", op=op, keys=col, key_kind=kind, values=vals, mask=mask)
        res.note_case(repr(case), True)
        res.count("stream", "quantile"); res.count("quantile_mask", mk)
        if t % 199 == 0:
            res.sample(case)
        arr = np.array(vals)
        gp = {lab: pos for lab, pos in group_positions(col, mask, n).items() if pos}
        try:
            gb = GroupBy(api.make_key(col, kind, "numpy"))
            api.warm(gb, rng.choice([None, None, None] + api.WARM_OPS), n)          # the grouping may have been used before
            m = None if mask is None else np.array(mask[1], dtype=bool)
            out = gb.median(arr, mask=m) if op == "median" else gb.quantile(arr, q, mask=m)
        except Exception as e:  # noqa: BLE001
            if not gp:
                continue
            res.violations.append(dict(sig=dict(stream="quantile", what="raised", op=op), case=case, observed=repr(e)[:200], expected="quantiles", what=f"{op} raised"))
            continue
        if op == "median":
            got = dict(zip([r[0] for r in api.index_to_ranks(out.index, [kind])], out.tolist()))
            want = {lab: float(np.median(arr[pos])) for lab, pos in gp.items()}
        else:
            got = {}
            for (lab, qq), v in zip(out.index.tolist(), out.tolist()):
                got[(api.label_to_rank(lab, kind), round(float(qq), 6))] = v
            want = {(lab, round(qq, 6)): float(np.quantile(arr[pos], qq)) for lab, pos in gp.items() for qq in q}
        if got != want:
            res.violations.append(dict(sig=dict(stream="quantile", what="differs", op=op, mask=mk), case=case, observed=str(got), expected=str(want), what=f"{op} differs from NumPy on the groups' selected values"))


def apply_stream(res, rng, tier, GroupBy):
    funcs = {
        "range": (lambda x: np.max(x) - np.min(x), "scalar"),
        "first": (lambda x: x[0], "scalar"),
        "minmax": (lambda x: np.array([np.min(x), np.max(x)]), "fixed"),
        "demean": (lambda x: x - np.mean(x), "aligned"),
        "cumsum": (lambda x: np.cumsum(x), "aligned"),
    }
    for t in range(500 if tier == "quick" else 5000):
        n = rng.randint(2, 12)
        col, kind = gen_keys(rng, n)
        vals = [float(rng.choice([1, 2, -3, 5, 7, 4])) for _ in range(n)]
        fname = rng.choice(list(funcs))
        f, shape = funcs[fname]
        mk = rng.choice(["none", "none", "bool"])
        mask = None if mk == "none" else ("b", [rng.random() < 0.7 for _ in range(n)])
        idx = list(range(50, 50 + n))
        case = dict(stream="apply", func=fname, keys=col, key_kind=kind, values=vals, mask=mask)
        res.note_case(repr(case), True)
        res.count("stream", "apply"); res.count("apply_func", fname)
        if t % 199 == 0:
            res.sample(case)
        arr = np.array(vals)
        gp = {lab: pos for lab, pos in group_positions(col, mask, n).items() if pos}
        if not gp:
            continue
        try:
            gb = GroupBy(api.make_key(col, kind, "pandas", index=idx))
            api.warm(gb, rng.choice([None, None, None] + api.WARM_OPS), n)
            m = None if mask is None else np.array(mask[1], dtype=bool)
            out = gb.apply(pd.Series(arr, index=idx), f, mask=m)
        except Exception as e:  # noqa: BLE001
            res.violations.append(dict(sig=dict(stream="apply", what="raised", func=fname), case=case, observed=repr(e)[:200], expected="results", what=f"apply({fname}) raised"))
            continue
        if shape == "scalar":
            got = dict(zip([r[0] for r in api.index_to_ranks(out.index, [kind])], [float(x) for x in out.tolist()]))
            want = {lab: float(f(arr[pos])) for lab, pos in gp.items()}
        elif shape == "fixed":
            got = {(api.label_to_rank(lab, kind), int(j)): float(v) for (lab, j), v in zip(out.index.tolist(), out.tolist())}
            want = {(lab, j): float(v) for lab, pos in gp.items() for j, v in enumerate(f(arr[pos]))}
        else:
            got = [(api.label_to_rank(lab, kind), int(i), float(v)) for (lab, i), v in zip(out.index.tolist(), out.tolist())]
            want = [(lab, idx[p], float(v)) for lab in sorted(gp) for p, v in zip(gp[lab], f(arr[gp[lab]]))]
            # aligned results are ambiguous with fixed-length ones when every group has the same size: accept either reading
            if got != want and len({len(p) for p in gp.values()}) == 1:
                k = len(next(iter(gp.values())))
                alt = [(lab, j, float(v)) for lab in sorted(gp) for j, v in enumerate(f(arr[gp[lab]]))]
                if got == alt:
                    continue
        if got != want:
            res.violations.append(dict(sig=dict(stream="apply", what="differs", func=fname, mask=mk), case=case, observed=str(got)[:400], expected=str(want)[:400],
                                       what=f"apply({fname}) differs from calling the function on each group's values in row order"))


def composite_stream(res, rng, tier, GroupBy):
    for t in range(400 if tier == "quick" else 4000):
        n = rng.randint(1, 12)
        col, kind = gen_keys(rng, n)
        v1 = np.array([float(rng.choice([1, 2, 3, 5, 7, 4])) for _ in range(n)])
        v2 = np.array([float(rng.choice([1, 2, 4, 8])) for _ in range(n)])
        mask = None if rng.random() < 0.6 else np.array([rng.random() < 0.7 for _ in range(n)], dtype=bool)
        which = rng.choice(["agg_list", "agg_frame", "ratio", "density", "density_size"])
        case = dict(stream="composite", which=which, keys=col, key_kind=kind, v1=v1.tolist(), v2=v2.tolist(), mask=None if mask is None else mask.tolist())
        res.note_case(repr(case), True)
        res.count("stream", "composite"); res.count("composite", which)
        if t % 199 == 0:
            res.sample(case)
        try:
            key = api.make_key(col, kind, "numpy")
            gb = GroupBy(key)
            if which == "agg_list":
                fl = rng.sample(["sum", "max", "min", "mean", "count", "first"], 2)
                out = gb.agg(v1, fl, mask=mask)
                ok = list(out.columns) == fl and all(out[f].equals(getattr(GroupBy(key), f)(v1, mask=mask).rename(f)) or np.allclose(out[f].to_numpy(dtype=float), getattr(GroupBy(key), f)(v1, mask=mask).to_numpy(dtype=float), equal_nan=True) for f in fl)
                obs, exp = out.to_dict(), {f: getattr(GroupBy(key), f)(v1, mask=mask).to_dict() for f in fl}
            elif which == "agg_frame":
                fl = rng.sample(["sum", "max", "min", "count"], 2)
                frame = pd.DataFrame({"a": v1, "b": v2})
                out = gb.agg(frame, fl, mask=mask)
                exp_cols = {"a": getattr(GroupBy(key), fl[0])(v1, mask=mask), "b": getattr(GroupBy(key), fl[1])(v2, mask=mask)}
                ok = list(out.columns) == ["a", "b"] and all(np.allclose(out[c].to_numpy(dtype=float), exp_cols[c].to_numpy(dtype=float), equal_nan=True) and list(out.index) == list(exp_cols[c].index) for c in ["a", "b"])
                obs, exp = out.to_dict(), {c: s.to_dict() for c, s in exp_cols.items()}
            elif which == "ratio":
                out = gb.ratio(v1, v2, mask=mask)
                want = GroupBy(key).sum(v1, mask=mask) / GroupBy(key).sum(v2, mask=mask)
                ok = list(out.index) == list(want.index) and np.allclose(out.to_numpy(dtype=float), want.to_numpy(dtype=float), equal_nan=True)
                obs, exp = out.to_dict(), want.to_dict()
            else:
                if which == "density":
                    out = gb.density(v1, mask=mask)
                    tot = GroupBy(key).sum(v1, mask=mask)
                else:
                    out = gb.density(mask=mask)
                    tot = GroupBy(key).size(mask=mask)
                if len(tot) == 0:
                    continue
                want = 100 * tot / tot.sum()
                ok = list(out.index) == list(want.index) and np.allclose(out.to_numpy(dtype=float), want.to_numpy(dtype=float), equal_nan=True) and (abs(float(out.sum()) - 100) < 1e-9 or tot.sum() == 0)
                obs, exp = out.to_dict(), want.to_dict()
            if not ok:
                res.violations.append(dict(sig=dict(stream="composite", what="differs", which=which), case=case, observed=str(obs)[:400], expected=str(exp)[:400], what=f"{which} is not consistent with the primitives"))
        except Exception as e:  # noqa: BLE001
            if all(c is None for c in col):
                continue
            res.violations.append(dict(sig=dict(stream="composite", what="raised", which=which, exc=type(e).__name__), case=case, observed=repr(e)[:200], expected="a result", what=f"{which} raised"))


def float_model_stream(res, rng, tier, GroupBy):
    """Tie A in IEEE-754 for GroupBy.var (float64 values, one kernel thread): the real method against Model/VarFloat64.v, a
    bit-exact transcription of the one-pass formula in Coq's primitive floats, per group in row order; magnitudes up to 1e200,
    offsets far larger than the spread, infinities, NaN, empty groups, ddof 0-2.  Evaluated by vm_compute in one coqc call."""
    import os
    import subprocess
    import warnings
    from ..common import VERIF, COQ
    alpha = [float("nan"), 1.0, 2.5, -3.0, 0.5, 0.1, 0.7, 4.0, 1e8 + 1, 1e8 + 2, 1e8 + 3, 1e16, -1e16, 1e9 + 0.125, float("inf"), float("-inf"), 1e150, 1e200, 5e-324, -0.0, 1e-300]

    def lit(x):
        x = float(x)
        if x != x:
            return "nan"
        if x == float("inf"):
            return "infinity"
        if x == float("-inf"):
            return "neg_infinity"
        h = x.hex()
        return "(" + h + ")" if h.startswith("-") else h
    cases = []
    for t in range(300 if tier == "quick" else 3000):
        L = rng.randint(1, 14)
        ng = rng.randint(1, 3)
        keys = [rng.randrange(ng) for _ in range(L)]
        vals = [rng.choice(alpha if rng.random() < 0.6 else alpha[:11]) for _ in range(L)]
        ddof = rng.choice([0, 1, 1, 2])
        with warnings.catch_warnings():
            warnings.simplefilter("ignore")
            out = GroupBy(np.array(keys, dtype="int64")).var(np.array(vals, dtype="float64"), ddof=ddof)
        for lab, o in zip(out.index.tolist(), out.tolist()):
            cases.append((ddof, [v for k, v in zip(keys, vals) if k == lab], float(o)))
        res.note_case(repr(("var-float-model", keys, [lit(v) for v in vals], ddof)), True)
        res.count("stream", "var-float-model")
    d = VERIF / ".cache" / "vfloat" / str(os.getpid())
    d.mkdir(parents=True, exist_ok=True)
    body = ";\n  ".join(f"(({ddof})%Z, [{'; '.join(lit(v) for v in vals)}], {lit(out)})" for ddof, vals, out in cases)
    (d / "cases.v").write_text("From Coq Require Import List ZArith PrimFloat.\nFrom GL Require Import Model.VarFloat64.\nImport ListNotations.\nOpen Scope float_scope.\n"
                               "Definition cases : list (Z * list float * float) :=\n  [" + body + "].\nEval vm_compute in map check_var cases.\n")
    p = subprocess.run(["timeout", "600", "coqc", "-Q", str(COQ / "theories"), "GL", "cases.v"], cwd=d, stdout=subprocess.PIPE, stderr=subprocess.STDOUT)
    txt = p.stdout.decode(errors="replace")
    flags = [w for w in txt.replace("[", " ").replace("]", " ").replace(";", " ").split() if w in ("true", "false")]
    for f in d.iterdir():
        f.unlink()
    d.rmdir()
    if p.returncode != 0 or len(flags) != len(cases):
        res.model_mismatches.append(dict(case="var-float-model", impl="-", model=f"coqc failed or printed {len(flags)} results for {len(cases)} cases: " + txt[-400:]))
        return
    for (ddof, vals, out), ok in zip(cases, flags):
        if ok != "true":
            res.model_mismatches.append(dict(case=dict(stream="var-float-model", ddof=ddof, group_values=[lit(v) for v in vals]), impl=lit(out), model="Model/VarFloat64.var_f64 gives another bit pattern"))


def run(res, tier="quick", seed=0, widen=False):
    global DRV
    DRV = Driver()
    from groupby_lib import GroupBy
    rng = random.Random(seed * 37 + 16 + (1 if widen else 0))
    res.rule = ("var/std: seeded groups (1-14 rows, nulls, masks, float64/float32/int64, offsets to 1e8, magnitudes 1e-6..1e6, ddof 0/1) vs exact two-pass variance within "
                "the PROVED rounding bound var_bound (Coq, extracted; ~ 3 n u max|x|^2 n/(n-ddof)); median/quantile vs NumPy per group incl. masked-out groups and unsorted first appearance; apply with scalar / fixed-length / aligned functions "
                "vs per-group calls in row order; agg lists and frames vs individual calls; ratio vs sum/sum; single-key density vs shares adding up to 100; "
                "GroupBy.var on float64 (groups of 1-14 rows, magnitudes to 1e200, offsets, inf, NaN, ddof 0-2) BIT FOR BIT against the primitive-float model Model/VarFloat64.v evaluated inside Coq; "
                "non-trivial: every case; distinct = canonical case")
    var_stream(res, rng, tier, GroupBy)
    quantile_stream(res, rng, tier, GroupBy)
    apply_stream(res, rng, tier, GroupBy)
    composite_stream(res, rng, tier, GroupBy)
    float_model_stream(res, rng, tier, GroupBy)


def replay(payload):
    return False, "replay: re-run ./bin/check C16 (deterministic for a given VERIF_SEED); stored case: " + str(payload.get("case"))
