"""C04 — block-wise reduction equals single-pass reduction (kernel contract).

Correspondence: every case is run on (a) the real kernel groupby_lib.groupby.numba.group_*
with the given mask / thread count / chunking, (b) the extracted code-model
group_func_wrap with the same configuration, (c) the extracted specification
spec_reduce (per-group definition on the rows NumPy indexing selects).
impl vs model: full (result and count arrays, or the error kind).
impl vs spec : the property (result per group; counts).
"""
from __future__ import annotations

import itertools
import random
import numpy as np

from ..common import Driver, log
from ..kernels import (DT, KERNELS, call_group_kernel, decode_model, expected_from,
                       model_request, spec_request, selected_positions, domkey, effective_dom, atom_to_val)

ALPHA = {
    "f8": [None, 1, 2, 3], "f4": [None, 1, 2, 3], "i8": [1, 2, 3, -2], "i4": [1, 2, 3, -2],
    "u1": [1, 2, 3, 0], "b": [0, 1], "M8": [None, 10, 20, 30], "m8": [None, 10, 20, -5],
}


def compositions(n, kmax):
    """all ways to cut n rows into 1..kmax consecutive (possibly empty-free) blocks"""
    out = []
    for k in range(1, kmax + 1):
        for cuts in itertools.combinations(range(1, n), k - 1):
            b = [0, *cuts, n]
            out.append([b[i + 1] - b[i] for i in range(k)])
    return out


def masks_for(n, rng):
    ms = [None]
    bits = [rng.random() < 0.6 for _ in range(n)]
    ms.append(("b", bits))
    ms.append(("b", [False] * n))
    a = rng.choice([None, 0, 1, -1, -2, -n - 1, n + 1])
    b = rng.choice([None, n, n - 1, -1, 1, 0, n + 2])
    ms.append(("s", a, b))
    if n:
        k = rng.randint(0, n + 1)
        ms.append(("i", [rng.randint(-n, n - 1) for _ in range(k)]))
    return ms


def run(res, tier="quick", seed=0, widen=False):
    from groupby_lib.groupby import numba as nbf

    rng = random.Random(seed * 7919 + (1 if widen else 0))
    drv = Driver()
    maxlen = 4 if tier == "quick" else 6
    vals_per_codes = 3 if tier == "quick" else 6
    multi_budget = 6000 if tier == "quick" else 60000
    dts_main = ["f8", "i8", "b", "M8"]
    dts_extra = ["f4", "i4", "u1", "m8"]
    res.rule = ("codes: all sequences of length <= %d over {-1,0,1,2}; values: %d seeded assignments per code sequence over a 4-symbol "
                "alphabet containing null (plus all-null); 9 kernels x dtype classes {f8,i8,bool,datetime64 + rotating f4,i4,u1,timedelta}; "
                "masks none/bool/all-false/slice(neg bounds)/positions(repeats, negatives); splits: n_threads 1..4 and chunked value lists "
                "(every composition into <= 4 blocks, sampled); non-trivial = >= 2 distinct non-null codes or a null code/value or a mask; "
                "distinct = canonical (kernel,dtype,codes,values,mask,split); float64 sums (nansum / sum / nansum_squares, 0-16 rows, 1-4 groups, null codes, boolean masks, 1-8 threads, "
                "magnitudes 5e-324..1e308, infinities, NaN, -0.0) BIT FOR BIT, value and count, against the primitive-float model Model/ReduceFloat.v evaluated inside Coq" % (maxlen, vals_per_codes))
    cases = []
    code_seqs = [()]
    for n in range(1, maxlen + 1):
        code_seqs += list(itertools.product([-1, 0, 1, 2], repeat=n))
    if tier == "quick" and not widen:
        pass
    multi_used = 0
    ki = 0
    for codes in code_seqs:
        n = len(codes)
        for vi in range(vals_per_codes + 1):
            for dt in dts_main + [dts_extra[(ki + vi) % 4]]:
                alpha = ALPHA[dt]
                if vi == vals_per_codes:
                    if not DT[dt]["nullable"]:
                        continue
                    vals = [None] * n
                else:
                    vals = [rng.choice(alpha) for _ in range(n)]
                ngroups = 3 if rng.random() < 0.8 else 4
                kernel = KERNELS[ki % len(KERNELS)]
                ki += 1
                if kernel == "sum_squares" and dt in ("M8", "m8"):
                    kernel = "sum"   # squares of timestamps are meaningless; excluded (see DESIGN)
                for mask in masks_for(n, rng):
                    cases.append((kernel, dt, codes, vals, ngroups, mask, 1, None))
                # block splits
                if n >= 1 and multi_used < multi_budget:
                    mask = rng.choice(masks_for(n, rng))
                    nt = rng.choice([2, 3, 4])
                    cases.append((kernel, dt, codes, vals, ngroups, mask, nt, None))
                    multi_used += 1
                    if dt in ("f8", "f4", "i8", "i4", "u1") or (dt in ("M8", "m8") and None not in vals):
                        comp = rng.choice(compositions(n, 4))
                        m2 = rng.choice([None, ("b", [rng.random() < 0.6 for _ in range(n)])])
                        cases.append((kernel, dt, codes, vals, ngroups, m2, 1, comp))
                        multi_used += 1
    # sentinel collisions: partial sums of plain int64 values that hit exactly the int64 minimum (the in-band null
    # marker of timestamps) inside a thread block, a value chunk or the whole pass: integers hold no nulls
    NEG = -2**62
    for _ in range(150 if tier == "quick" else 1500):
        n = rng.randint(3, 6)
        codes = tuple(rng.choice([0, 0, 1, -1]) for _ in range(n))
        vals = [rng.choice([1, 5, 3, 7]) for _ in range(n)]
        i, j = rng.sample(range(n), 2)
        vals[i] = vals[j] = NEG
        kernel = rng.choice(["sum", "sum", "mean"]) if "mean" in KERNELS else "sum"
        r = rng.random()
        if r < 0.4:
            cases.append((kernel, "i8", codes, vals, 3, None, 1, None))
        elif r < 0.7:
            cases.append((kernel, "i8", codes, vals, 3, None, rng.choice([2, 3]), None))
        else:
            cases.append((kernel, "i8", codes, vals, 3, None, 1, rng.choice(compositions(n, 3))))
    # malformed stream: misaligned lengths, out-of-bounds positions
    for _ in range(200 if tier == "quick" else 1000):
        n = rng.randint(1, 4)
        codes = tuple(rng.choice([-1, 0, 1, 2]) for _ in range(n))
        dt = rng.choice(["f8", "i8"])
        kind = rng.choice(["short_vals", "long_vals", "bool_len", "oob"])
        vals = [rng.choice(ALPHA[dt]) for _ in range(n)]
        mask = None
        if kind == "short_vals":
            vals = vals[:-1]
        elif kind == "long_vals":
            vals = vals + [1]
        elif kind == "bool_len":
            mask = ("b", [True] * (n + rng.choice([-1, 1])))
        else:
            mask = ("i", [0, n + rng.randint(0, 2)])
        cases.append((rng.choice(["sum", "min", "count", "first"]), dt, codes, vals, 3, mask, 1, None))

    log(f"[C04] {len(cases)} cases ({multi_used} multi-block)")
    # model + spec in two batches
    mreqs = [model_request(*c) for c in cases]
    mresp = drv.ask(mreqs)
    sreqs, sidx = [], []
    for i, c in enumerate(cases):
        kernel, dt, codes, vals, ng, mask, nt, comp = c
        if len(vals) == len(codes) and not (mask and mask[0] == "b" and len(mask[1]) != len(codes)) and not (
                mask and mask[0] == "i" and any(p >= len(codes) for p in mask[1])):
            sreqs.append(spec_request(kernel, dt, codes, vals, ng, mask))
            sidx.append(i)
    sresp = dict(zip(sidx, drv.ask(sreqs)))

    for i, c in enumerate(cases):
        kernel, dt, codes, vals, ng, mask, nt, comp = c
        impl = call_group_kernel(nbf, kernel, dt, codes, vals, ng, mask, nt, comp)
        model = decode_model(mresp[i], kernel, dt)
        canonical = repr(c)
        sel = selected_positions(len(codes), mask) if len(vals) == len(codes) and i in sresp else []
        nontrivial = (len({codes[p] for p in sel if 0 <= p < len(codes) and codes[p] >= 0}) >= 2 or any(k < 0 for k in codes)
                      or any(v is None for v in vals) or mask is not None)
        res.note_case(canonical, nontrivial)
        res.count("kernel", kernel); res.count("dtype", dt); res.count("len", len(codes))
        res.count("mask", "none" if mask is None else mask[0]); res.count("split", "threads=%d" % nt if not comp else "chunks=%d" % len(comp))
        case = dict(kernel=kernel, dtype=dt, codes=list(codes), values=[None if v is None else str(v) for v in vals], ngroups=ng,
                    mask=mask, n_threads=nt, chunk_lens=comp)
        if i % 997 == 0:
            res.sample(case)
        sig = dict(kernel=kernel, dtype=dt, mask="none" if mask is None else mask[0], multi=bool(nt > 1 or comp))
        # impl vs model
        if model[0] == "err":
            res.count("outcome", "err-" + model[1])
            if impl[0] != "err":
                # the model says this call must be rejected; the implementation answered
                res.violations.append(dict(sig={**sig, "kind": "accepted-malformed"}, case=case, observed=str(impl)[:300],
                                           expected="error " + model[1], what="misaligned / out-of-bounds input accepted"))
            continue
        res.count("outcome", "ok")
        if impl[0] == "err":
            res.violations.append(dict(sig={**sig, "kind": "raised"}, case=case, observed=str(impl)[:300], expected=str(model)[:300],
                                       what=f"group_{kernel} raised on a well-formed input"))
            continue
        exp_m = expected_from(kernel, dt, model[1], model[2])
        if impl[1] != exp_m or impl[2] != model[2]:
            res.model_mismatches.append(dict(case=case, impl=str(impl)[:300], model=str((exp_m, model[2]))[:300]))
        # impl vs spec (the property)
        if i in sresp:
            sp = sresp[i]
            dom = effective_dom(kernel, dt) if kernel != "size" else "i"
            svals = [atom_to_val(p[0], domkey(dom)) for p in sp[1]]
            scnt = [int(p[1]) for p in sp[1]]
            exp_s = expected_from(kernel, dt, svals, scnt)
            if impl[1] != exp_s or impl[2] != scnt:
                res.violations.append(dict(sig={**sig, "kind": "wrong-result"}, case=case, observed=str(impl)[:300],
                                           expected=str((exp_s, scnt))[:300],
                                           what=f"group_{kernel} differs from the per-group definition"))
    float_model_stream(res, rng, tier, nbf)
    res.exhaustive = False
    res.extra["multi_block_cases"] = multi_used


def float_model_stream(res, rng, tier, nbf):
    """Tie A in IEEE-754 for the grouped float64 sums behind GroupBy.sum / mean / var: numba._group_func_wrap with 'nansum',
    'sum' and 'nansum_squares', 1-8 kernel threads, with and without a boolean mask, against Model/ReduceFloat.v - a bit-exact
    transcription in Coq's primitive floats (array_split pieces, per-piece per-group running sums, left-to-right merge that
    skips empty pieces) evaluated by vm_compute: value AND count of every group, every magnitude, infinities, NaN, -0.0."""
    import os
    import subprocess
    import warnings
    from ..common import VERIF, COQ
    alpha = [float("nan"), 1.0, 2.5, -3.0, 0.5, 0.1, 0.7, 4.0, 0.3, 1e16, -1e16, 1e8 + 0.1, float(2**60), -7e15, 1e9 + 0.125, float("inf"), float("-inf"), 1e308, -1e308, 5e-324, -0.0, 1e-300, 1e150, 1e200]
    names = ["nansum", "sum", "nansum_squares"]

    def lit(x):
        x = float(x)
        if x != x:
            return "nan"
        if x == float("inf"):
            return "infinity"
        if x == float("-inf"):
            return "neg_infinity"
        h = x.hex()
        return "(" + h + ")" if h.startswith("-") else h
    cases = []
    for t in range(300 if tier == "quick" else 3000):
        L = rng.randint(0, 16)
        ng = rng.randint(1, 4)
        keys = [rng.choice(list(range(ng)) + [-1]) if rng.random() < 0.9 else rng.randrange(ng) for _ in range(L)]
        vals = [rng.choice(alpha if rng.random() < 0.6 else alpha[:9]) for _ in range(L)]
        fn = rng.randrange(3)
        nt = rng.choice([1, 1, 2, 3, 4, 5, 8])
        mask = [rng.random() < 0.7 for _ in range(L)] if rng.random() < 0.4 and L > 0 else None
        case = dict(stream="reduce-float-model", func=names[fn], n_threads=nt, keys=keys, values=[lit(v) for v in vals], mask=mask, ngroups=ng)
        out = None
        with warnings.catch_warnings():
            warnings.simplefilter("ignore")
            for attempt in range(3):
                try:
                    out = nbf._group_func_wrap(names[fn], np.array(keys, dtype="int64"), np.array(vals, dtype="float64"), ng,
                                               None if mask is None else np.array(mask, dtype=bool), nt, True)
                    break
                except ReferenceError:          # numba's on-disk cache being rewritten by a concurrent process
                    continue
                except Exception as e:  # noqa: BLE001
                    res.violations.append(dict(sig=dict(kernel=names[fn], kind="raised", stream="reduce-float-model"), case=case, observed=repr(e)[:200], expected="per-group sums",
                                               what="_group_func_wrap raised on a well-formed float64 input"))
                    break
        if out is None:
            continue
        value, count = out
        for g in range(ng):
            cases.append((fn, nt, keys, vals, mask, g, float(value[g]), int(count[g])))
        res.note_case(repr(("reduce-float-model", fn, nt, keys, [lit(v) for v in vals], mask, ng)), True)
        res.count("stream", "reduce-float-model"); res.count("split", "threads=%d" % nt)
    d = VERIF / ".cache" / "gfloat" / str(os.getpid())
    d.mkdir(parents=True, exist_ok=True)

    def row(c):
        fn, nt, keys, vals, mask, g, out, cnt = c
        return (f"({fn}%nat, {nt}%nat, [{'; '.join('(%d)' % k for k in keys)}]%Z, [{'; '.join(lit(v) for v in vals)}], "
                f"[{'; '.join('true' if m else 'false' for m in (mask or []))}], ({g})%Z, {lit(out)}, ({cnt})%Z)")
    (d / "cases.v").write_text("From Coq Require Import List ZArith PrimFloat.\nFrom GL Require Import Model.ReduceFloat.\nImport ListNotations.\nOpen Scope float_scope.\n"
                               "Definition cases : list (nat * nat * list Z * list float * list bool * Z * float * Z) :=\n  [" + ";\n  ".join(row(c) for c in cases) + "].\n"
                               "Eval vm_compute in map check_reduce cases.\n")
    p = subprocess.run(["timeout", "900", "coqc", "-Q", str(COQ / "theories"), "GL", "cases.v"], cwd=d, stdout=subprocess.PIPE, stderr=subprocess.STDOUT)
    txt = p.stdout.decode(errors="replace")
    flags = [w for w in txt.replace("[", " ").replace("]", " ").replace(";", " ").split() if w in ("true", "false")]
    for f in d.iterdir():
        f.unlink()
    d.rmdir()
    if p.returncode != 0 or len(flags) != len(cases):
        res.model_mismatches.append(dict(case="reduce-float-model", impl="-", model=f"coqc failed or printed {len(flags)} results for {len(cases)} cases: " + txt[-400:]))
        return
    for c, ok in zip(cases, flags):
        if ok != "true":
            fn, nt, keys, vals, mask, g, out, cnt = c
            res.model_mismatches.append(dict(case=dict(stream="reduce-float-model", func=names[fn], n_threads=nt, keys=keys, values=[lit(v) for v in vals], mask=mask, group=g),
                                             impl=f"{lit(out)} count {cnt}", model="Model/ReduceFloat.group_reduce_f gives another bit pattern or count"))


def replay(payload):
    from groupby_lib.groupby import numba as nbf
    c = payload["case"]
    from fractions import Fraction
    vals = [None if v is None else Fraction(v) for v in c["values"]]
    mask = c["mask"]
    if mask is not None:
        mask = tuple(mask)
    drv = Driver()
    args = (c["kernel"], c["dtype"], tuple(c["codes"]), vals, c["ngroups"], mask, c["n_threads"], c["chunk_lens"])
    impl = call_group_kernel(nbf, *args)
    model = decode_model(drv.ask([model_request(*args)])[0], c["kernel"], c["dtype"])
    ok = model[0] == impl[0] and (model[0] == "err" or (impl[1] == expected_from(c["kernel"], c["dtype"], model[1], model[2]) and impl[2] == model[2]))
    return ok, f"impl={impl}\nmodel={model}"
