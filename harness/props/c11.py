"""C11 — result labelling, order and shape are determined by the inputs.

For every reduction (without margins):
  order     labels ascending by key (lexicographic for several keys, category order for
            categoricals — also non-alphabetical category orders and categorical non-first
            keys —, first-appearance order when sort=False), whatever the row order
  observed  only labels with a selected row, unless observed_only=False: then every label
            (all categories, every label of the keys) with neutral values for the unobserved
  levels    one index level per key, named after the keys
  shape     a single 1-D values input gives a Series named like the input; a list / dict / frame /
            2-D array gives a DataFrame with one column per input in input order, each column
            identical to the result for that input alone
Oracle: the logical dataset (ranks) and the single-input call."""
from __future__ import annotations

import random
from fractions import Fraction

import numpy as np
import pandas as pd
import polars as pl

from .. import api
from ..kernels import selected_positions
from .c05 import close

OPS = ["size", "count", "sum", "mean", "min", "max", "first", "last", "median", "var"]
VALS = [None, Fraction(1), Fraction(2), Fraction(-3), Fraction(1, 2), Fraction(7)]
CAT_ORDERS = [[0, 1, 2, 3], [2, 0, 3, 1], [3, 2, 1, 0]]      # rank -> position in the category order


def gen_case(rng, tier):
    n = rng.randint(1, 10 if tier == "quick" else 16)
    nkeys = rng.choice([1, 1, 2, 2, 3])
    keycols, kinds, catorders, names = [], [], [], []
    layout = rng.choice(["random", "random", "sorted_rows", "text_sorted"])
    for j in range(nkeys):
        nlab = rng.choice([2, 3, 4])
        col = [rng.randrange(nlab) for _ in range(n)]
        if rng.random() < 0.2:
            col[rng.randrange(n)] = None
        if rng.random() < 0.15:
            # a key holding ONE label only (plus possibly a null): for booleans / categoricals / enums the grouping
            # knows labels no row has
            one = rng.randrange(2)
            col = [None if r is None else one for r in col]
        kind = rng.choice([k for k in ["int", "float", "str", "cat", "cat", "dt", "dttz", "bool", "enum"] if api.kind_ok(col, "cat" if k == "enum" else k)])
        keycols.append(col); kinds.append(kind)
        catorders.append(rng.choice(CAT_ORDERS) if kind in ("cat", "enum") else None)
        names.append(f"key{j}" if kind == "enum" else rng.choice([f"key{j}", f"key{j}", None]))   # a polars Series always has a name
    if layout != "random":
        # rows sorted by the raw key VALUES (text order for strings/categoricals): a pre-sorted frame
        def rowkey(i):
            return tuple((-1 if keycols[j][i] is None else keycols[j][i]) for j in range(nkeys))
        order = sorted(range(n), key=rowkey)
        keycols = [[col[i] for i in order] for col in keycols]
    ncols = rng.choice([1, 1, 2, 3])
    vals = [[rng.choice(VALS) for _ in range(n)] for _ in range(ncols)]
    shape = rng.choice(["series", "array", "list", "dict", "frame", "array2d", "plframe", "list_same_names", "list_default_name_taken"]) if ncols > 1 else rng.choice(["series", "series_unnamed", "array", "plseries"])
    if ncols > 1 and shape in ("series", "array"):
        shape = "list"
    op = rng.choice(OPS)
    mk = rng.choice(["none", "none", "bool", "groupout"]) if op != "median" else rng.choice(["none", "bool"])
    codes, labels = api.logical_codes(keycols)
    if mk == "none" or not labels:
        mask = None
    elif mk == "bool":
        mask = ("b", [rng.random() < 0.65 for _ in range(n)])
    else:
        g = rng.randrange(len(labels))
        mask = ("b", [codes[i] != g for i in range(n)])
    warm_ = rng.choice([None, None, None] + api.WARM_OPS)
    chunked_ = rng.random() < 0.2
    return dict(warm=warm_, chunked=chunked_, keycols=keycols, kinds=kinds, catorders=catorders, names=names, vals=vals, shape=shape, op=op, mask=mask, mk=mk,
                sort=rng.random() < 0.8, observed_only=rng.random() < 0.75, layout=layout)


def make_key(col, kind, catorder, name):
    if kind == "enum":
        # polars Enum: the declared categories (in category order) include values no row has
        cats_by_pos = sorted(range(4), key=lambda r: catorder[r])
        return pl.Series(name or "", [None if r is None else api.STR[r] for r in col], dtype=pl.Enum([api.STR[r] for r in cats_by_pos]))
    if kind == "cat":
        cats_by_pos = sorted(range(4), key=lambda r: catorder[r])          # rank at each category position
        cat = pd.Categorical.from_codes([-1 if r is None else catorder[r] for r in col], categories=[api.STR[r] for r in cats_by_pos])
        return pd.Series(cat, name=name)
    k = api.make_key(col, kind, "pandas", name=name)
    return k


def order_key(t, kinds, catorders):
    # category order: pandas Categoricals everywhere; a polars Enum as a single key (with several keys its level of the
    # result index is a plain string level, ordered by value like the levels of arrow-dictionary keys)
    return tuple((catorders[j][r] if (kinds[j] == "cat" or (kinds[j] == "enum" and len(kinds) == 1)) else r) for j, r in enumerate(t))


def all_labels(c):
    """every label the grouping knows: observed key values, and every category for categoricals"""
    per_key = []
    for col, kind in zip(c["keycols"], c["kinds"]):
        per_key.append(list(range(4)) if kind in ("cat", "enum") else sorted({r for r in col if r is not None}))
    return per_key


def make_values(c):
    cols = [api.make_values(v, "f8", "pandas", name=f"v{j}") for j, v in enumerate(c["vals"])]
    sh = c["shape"]
    if sh == "series":
        return cols[0], ["v0"], "v0"
    if sh == "series_unnamed":
        return pd.Series(cols[0].to_numpy()), [None], None
    if sh == "array":
        return cols[0].to_numpy(), [None], None
    if sh == "plseries":
        return pl.Series("v0", cols[0].to_numpy()), ["v0"], "v0"
    if sh == "list":
        return [x for x in cols], [f"v{j}" for j in range(len(cols))], None
    if sh == "list_same_names":
        # several inputs that carry the same name (columns taken from different frames): still one column per input
        return [x.rename("dup") for x in cols], ["dup"] * len(cols), None
    if sh == "list_default_name_taken":
        # an unnamed input next to one that is called like the default name of an unnamed input
        return [cols[0].to_numpy()] + [x.rename("_arr_0") for x in cols[1:]], None, None
    if sh == "dict":
        return {f"d{j}": x.to_numpy() for j, x in enumerate(cols)}, [f"d{j}" for j in range(len(cols))], None
    if sh == "frame":
        return pd.DataFrame({f"v{j}": x for j, x in enumerate(cols)}), [f"v{j}" for j in range(len(cols))], None
    if sh == "plframe":
        return pl.DataFrame({f"v{j}": x.to_numpy() for j, x in enumerate(cols)}), [f"v{j}" for j in range(len(cols))], None
    if sh == "array2d":
        return np.column_stack([x.to_numpy() for x in cols]), None, None
    raise ValueError(sh)


def call(gb, op, v, mask, observed_only):
    kw = {}
    if op not in ("median",):
        kw["observed_only"] = observed_only
    if op == "size":
        return gb.size(mask=mask, **kw)
    return getattr(gb, op)(v, mask=mask, **kw)


def run_case(GroupBy, c):
    n = len(c["keycols"][0])
    op = c["op"]
    nkeys = len(c["keycols"])
    sig = dict(level="api", op=op, nkeys=nkeys, shape=c["shape"], sort=c["sort"], observed_only=c["observed_only"], layout=c["layout"])
    keys = [make_key(col, kind, co, name) for col, kind, co, name in zip(c["keycols"], c["kinds"], c["catorders"], c["names"])]
    mask = None if c["mask"] is None else np.array(c["mask"][1], dtype=bool)
    v, col_names, series_name = make_values(c)
    observed_only = c["observed_only"] if op != "median" else True
    try:
        with api.strategy(chunk_threshold=4 if c.get("chunked") else None):
            gb = GroupBy(keys if nkeys > 1 else keys[0], sort=c["sort"])
            api.warm(gb, c.get("warm"), n)          # the grouping may have been used before
            out = call(gb, op, v, mask, c["observed_only"])
    except Exception as e:  # noqa: BLE001
        if all(any(col[i] is None for col in c["keycols"]) for i in range(n)):
            return []          # no row has a complete key: nothing to label
        return [dict(sig={**sig, "what": "raised", "exc": type(e).__name__}, what=f"{op} raised {e!r}"[:300], observed=repr(e)[:200], expected="a result")]
    viol = []
    ncols = len(c["vals"])
    # ---- shape / naming
    want_frame = op != "size" and ncols > 1 or (op != "size" and c["shape"] in ("list", "dict", "frame", "plframe", "array2d"))
    if want_frame != isinstance(out, pd.DataFrame):
        viol.append(dict(sig={**sig, "what": "container"}, what=f"{'frame' if want_frame else 'series'} expected, got {type(out).__name__}", observed=type(out).__name__, expected="DataFrame" if want_frame else "Series"))
        return viol
    if isinstance(out, pd.DataFrame) and c["shape"] in ("list_same_names", "list_default_name_taken") and out.shape[1] != len(c["vals"]):
        # (known finding K4: the columns are assembled in a dict keyed by name)
        viol.append(dict(sig={**sig, "what": "column-dropped", "duplicate_names": True}, what="inputs that share a name: the result has fewer columns than inputs", observed=str(list(out.columns)),
                         expected=f"{len(c['vals'])} columns"))
        return viol
    if isinstance(out, pd.DataFrame) and col_names is not None and list(out.columns) != col_names:
        viol.append(dict(sig={**sig, "what": "columns"}, what="columns are not one per input in input order", observed=str(list(out.columns)), expected=str(col_names)))
    if isinstance(out, pd.Series) and op != "size" and out.name != series_name:
        viol.append(dict(sig={**sig, "what": "name"}, what="the Series is not named like the input", observed=str(out.name), expected=str(series_name)))
    # ---- index levels and names
    if out.index.nlevels != nkeys:
        viol.append(dict(sig={**sig, "what": "levels"}, what="not one index level per key", observed=str(out.index.nlevels), expected=str(nkeys)))
        return viol
    if list(out.index.names) != c["names"]:
        viol.append(dict(sig={**sig, "what": "index-names"}, what="index levels are not named after the keys", observed=str(list(out.index.names)), expected=str(c["names"])))
    # ---- labels and order
    got_labels = api.index_to_ranks(out.index, ["cat" if k == "enum" else k for k in c["kinds"]])
    codes, labels = api.logical_codes(c["keycols"])
    sel = set(selected_positions(n, c["mask"]))
    observed = {labels[codes[i]] for i in sel if codes[i] >= 0}
    first_seen = []
    for i in range(n):
        if codes[i] >= 0 and labels[codes[i]] not in first_seen:
            first_seen.append(labels[codes[i]])
    if observed_only:
        want_set = observed
    else:
        import itertools
        if nkeys == 1:
            want_set = {(r,) for r in all_labels(c)[0]}
        else:
            want_set = set(first_seen)           # multi-key: the labels are the combinations present in the keys
    if set(got_labels) != want_set or len(got_labels) != len(set(got_labels)):
        viol.append(dict(sig={**sig, "what": "labels"}, what="the labels listed are not the expected ones", observed=str(got_labels), expected=str(sorted(want_set))))
        return viol
    all_cat = all(k == "cat" for k in c["kinds"])
    # a boolean key is an ordinary key: its labels are the values present, ascending when sorted, first appearance otherwise
    if c["sort"] or (nkeys == 1 and c["kinds"][0] in ("cat", "enum")):
        want_order = sorted(got_labels, key=lambda t: order_key(t, c["kinds"], c["catorders"]))
        if got_labels != want_order:
            viol.append(dict(sig={**sig, "what": "order"}, what="labels are not in ascending key order (category order for categoricals)", observed=str(got_labels), expected=str(want_order)))
    else:
        want_order = [t for t in first_seen if t in set(got_labels)]
        got_observed = [t for t in got_labels if t in set(first_seen)]          # labels no row has (observed_only=False) come after
        if (got_observed != want_order or got_labels[:len(got_observed)] != got_observed) and nkeys == 1:
            viol.append(dict(sig={**sig, "what": "order-unsorted"}, what="with sort=False labels are not in first-appearance order", observed=str(got_labels), expected=str(want_order)))
    # ---- unobserved labels carry neutral values
    if not observed_only:
        ser = out if isinstance(out, pd.Series) else out.iloc[:, 0]
        vals = api.canon_series(ser)
        for t, x in zip(got_labels, vals):
            if t not in observed and not (x is None or x == 0):
                viol.append(dict(sig={**sig, "what": "unobserved-not-neutral"}, what=f"unobserved label {t} carries {x}", observed=str(x), expected="neutral"))
                break
    # ---- each column identical to the single-input call
    if isinstance(out, pd.DataFrame):
        for j in range(ncols):
            single_v = api.make_values(c["vals"][j], "f8", "pandas", name=f"v{j}")
            single = call(GroupBy(keys if nkeys > 1 else keys[0], sort=c["sort"]), op, single_v, mask, c["observed_only"])
            a = api.canon_series(out.iloc[:, j]); b = api.canon_series(single)
            if list(out.index) != list(single.index) or len(a) != len(b) or not all(close(x, y, True) for x, y in zip(a, b)):
                viol.append(dict(sig={**sig, "what": "column-vs-single"}, what=f"column {j} differs from the result for that input alone", observed=str(a), expected=str(b)))
                break
    return viol


def case_json(c):
    return dict(chunked=c.get("chunked"), warmed_with=c.get("warm"), keys=c["keycols"], key_kinds=c["kinds"], cat_orders=c["catorders"], key_names=c["names"], values=[[None if v is None else str(v) for v in col] for col in c["vals"]],
                shape=c["shape"], op=c["op"], mask=c["mask"], mk=c["mk"], sort=c["sort"], observed_only=c["observed_only"], layout=c["layout"])


def shape_sweep(res, GroupBy):
    """One fixed dataset: reductions AND the row-aligned / selecting operations (transform, cumulative, rolling in both layouts,
    shift / diff, ema, head / tail / nth, margins, masks, quantile, apply) are run on a collection of two inputs in every shape
    (list of Series, dict, pandas / polars frame, 2-D array, list of arrays) and every column is compared with the single-input call."""
    k = np.array([1, 0, 1, -5, 2, 0, 1])
    a = np.array([1., np.nan, 4, 8, 16, 32, 64])
    b = np.array([3., 5, 7, 11, 13, 17, 19])
    m = np.array([True, True, False, True, True, True, True])
    ops = {
        "sum": lambda gb, v: gb.sum(v), "mean_transform": lambda gb, v: gb.mean(v, transform=True), "median": lambda gb, v: gb.median(v), "var": lambda gb, v: gb.var(v), "std": lambda gb, v: gb.std(v),
        "cumsum": lambda gb, v: gb.cumsum(v), "cummax": lambda gb, v: gb.cummax(v), "rolling_sum": lambda gb, v: gb.rolling_sum(v, 2, min_periods=1),
        "rolling_max_by_groups": lambda gb, v: gb.rolling_max(v, 2, min_periods=1, index_by_groups=True), "shift": lambda gb, v: gb.shift(v, 1), "diff": lambda gb, v: gb.diff(v, 1),
        "ema": lambda gb, v: gb.ema(v, alpha=0.5), "head": lambda gb, v: gb.head(v, 1), "tail": lambda gb, v: gb.tail(v, 2), "nth": lambda gb, v: gb.nth(v, 1),
        "sum_margins": lambda gb, v: gb.sum(v, margins=True), "last_mask": lambda gb, v: gb.last(v, mask=m), "quantile": lambda gb, v: gb.quantile(v, [0.5]), "apply": lambda gb, v: gb.apply(v, np.nanmax),
        "count_all_labels": lambda gb, v: gb.count(v, observed_only=False),
    }
    shapes = {
        "list": lambda: [pd.Series(a, name="a"), pd.Series(b, name="b")], "dict": lambda: {"a": a, "b": b}, "frame": lambda: pd.DataFrame({"a": a, "b": b}),
        "plframe": lambda: pl.DataFrame({"a": a, "b": b}), "array2d": lambda: np.column_stack([a, b]), "list_arrays": lambda: [a, b],
    }

    def ser(r):
        if isinstance(r, pl.Series):
            r = r.to_pandas()
        return (list(map(str, r.index.tolist())), [None if pd.isna(x) else round(float(x), 9) for x in r.tolist()])
    for name, f in ops.items():
        try:
            ra, rb = ser(f(GroupBy(k), a)), ser(f(GroupBy(k), b))
        except Exception as e:  # noqa: BLE001
            res.violations.append(dict(sig=dict(level="api", stream="shape-sweep", what="single-input-raised", op=name), case=dict(op=name), observed=repr(e)[:200], expected="a result", what=f"{name} raised on a single input"))
            continue
        for sh, mk in shapes.items():
            case = dict(stream="shape-sweep", op=name, shape=sh)
            res.note_case(repr(case), True)
            res.count("shape_sweep", sh)
            try:
                r = f(GroupBy(k), mk())
                if isinstance(r, pl.DataFrame):
                    r = r.to_pandas()
                if not isinstance(r, pd.DataFrame) or r.shape[1] != 2:
                    got = f"{type(r).__name__} of shape {getattr(r, 'shape', None)}"
                else:
                    got = (ser(r.iloc[:, 0]), ser(r.iloc[:, 1]))
            except Exception as e:  # noqa: BLE001
                got = "raised " + type(e).__name__ + ": " + str(e)[:100]
            if got != (ra, rb):
                res.violations.append(dict(sig=dict(level="api", stream="shape-sweep", what="column-vs-single", op=name, shape=sh), case=case, observed=str(got)[:300], expected=str((ra, rb))[:300],
                                           what=f"{name} on a {sh} of two inputs: a column differs from the result for that input alone"))


def run(res, tier="quick", seed=0, widen=False):
    from groupby_lib import GroupBy
    rng = random.Random(seed * 47 + 11 + (1 if widen else 0))
    n_cases = 3000 if tier == "quick" else 30000
    res.rule = ("seeded random logical datasets: 1-3 keys (int/float/str/datetime/categorical with alphabetical, shuffled and reversed category orders, categorical also as "
                "non-first key, time-zone aware datetimes), rows in random order or pre-sorted by the raw key values, named and unnamed keys; values as named/unnamed Series, array, polars Series, list, "
                "dict, pandas/polars frame, 2-D array, lists whose members share a name; 10 reductions; sort on/off; observed_only on/off; masks incl. whole-group-out; checks: label set, order, level count and "
                "names, Series name / column labels, container type, every column equal to the single-input result; plus a sweep of the row-aligned and selecting operations (transform, cumulative, rolling, shift/diff, ema, head/tail/nth, margins, quantile, apply) over every collection shape; non-trivial = >= 2 labels; distinct = canonical case")
    shape_sweep(res, GroupBy)
    for ci in range(n_cases):
        c = gen_case(rng, tier)
        cj = case_json(c)
        codes, labels = api.logical_codes(c["keycols"])
        res.note_case(repr(cj), len(labels) >= 2)
        res.count("op", c["op"]); res.count("nkeys", len(c["keycols"])); res.count("shape", c["shape"]); res.count("sort", c["sort"]); res.count("observed_only", c["observed_only"])
        res.count("layout", c["layout"]); res.count("key_kinds", "+".join(c["kinds"]))
        if ci % 499 == 0:
            res.sample(cj)
        for v in run_case(GroupBy, c):
            v["case"] = cj
            res.violations.append(v)


def replay(payload):
    from groupby_lib import GroupBy
    c0 = payload["case"]
    c = dict(keycols=c0["keys"], kinds=c0["key_kinds"], catorders=c0["cat_orders"], names=c0["key_names"],
             vals=[[None if v is None else Fraction(v) for v in col] for col in c0["values"]], shape=c0["shape"], op=c0["op"],
             mask=None if c0["mask"] is None else tuple(c0["mask"]), mk=c0["mk"], sort=c0["sort"], observed_only=c0["observed_only"], layout=c0["layout"],
             chunked=c0.get("chunked"), warm=c0.get("warmed_with"))
    v = run_case(GroupBy, c)
    return (not v), ("replay: " + (v[0]["what"] if v else "no violation on this input"))
