"""C20 — stand-alone array helpers agree with their NumPy definitions.

  nanops: nansum / nanmean / nanmin / nanmax / nanvar / nanstd / count on 1-D float and integer
          arrays (all null placements, lengths 1..12, n_threads 1..8 incl. more threads than
          elements) vs NumPy's nan-functions; sum / min / max column- and row-wise on 2-D arrays;
          the chunked reduction is also compared with the extracted code-model
  nb_dot: matrix-vector product for arrays, pandas and polars frames vs a @ b
  bools_to_categorical: every boolean frame up to 4x4: each row's label names exactly its
          true columns
  pretty_cut: every value lands in the bin whose printed bounds contain it (values equal to
          edges, below/above all edges, nulls -> no bin), integer and float data"""
from __future__ import annotations

import itertools
import math
import random
import re
from fractions import Fraction

import numpy as np
import pandas as pd
import polars as pl

from ..common import Driver, log, sx, val_to_atom, atom_to_val


def np_ref(name, arr, ddof=1):
    import warnings
    with warnings.catch_warnings():
        warnings.simplefilter("ignore")
        if name == "nansum":
            return np.nansum(arr)
        if name == "nanmean":
            return np.nanmean(arr) if arr.dtype.kind == "f" else np.mean(arr)
        if name == "nanmin":
            return np.nanmin(arr) if not np.all(np.isnan(arr.astype(float))) else np.nan
        if name == "nanmax":
            return np.nanmax(arr) if not np.all(np.isnan(arr.astype(float))) else np.nan
        if name == "nanvar":
            n = np.count_nonzero(~np.isnan(arr.astype(float)))
            return np.nanvar(arr, ddof=ddof) if n - ddof > 0 else np.nan
        if name == "nanstd":
            n = np.count_nonzero(~np.isnan(arr.astype(float)))
            return np.nanstd(arr, ddof=ddof) if n - ddof > 0 else np.nan
        if name == "count":
            return np.count_nonzero(~np.isnan(arr.astype(float)))
    raise ValueError(name)


def same_num(a, b, approx):
    a, b = float(a), float(b)
    if math.isnan(a) or math.isnan(b):
        return math.isnan(a) and math.isnan(b)
    if approx:
        tol = approx if isinstance(approx, float) else 1e-9
        return abs(a - b) <= tol * max(1.0, abs(a), abs(b))
    return a == b


INT_ALPHA = {"i1": [127, -128, 100, 1, -3], "i2": [32767, -32768, 1000, 1, -3], "i4": [2**31 - 1, -2**31, 10**6, 1, -3],
             "u1": [255, 200, 1, 0, 7], "u2": [65535, 40000, 1, 0, 7], "u4": [2**32 - 1, 2**31, 7, 0, 1]}
NP_DT = {"f8": "float64", "f4": "float32", "i8": "int64", "i1": "int8", "i2": "int16", "i4": "int32", "u1": "uint8", "u2": "uint16", "u4": "uint32"}


def nanops_stream(res, rng, tier):
    from groupby_lib import nanops
    drv = Driver()
    maxlen = 8 if tier == "quick" else 12
    vals_f = [None, 1.0, 2.0, -3.0, 0.5, 4.0]
    cases = []
    for L in range(1, maxlen + 1):
        reps = 40 if tier == "quick" else 200
        for _ in range(reps):
            kind = rng.choice(["f8", "f8", "i8", "f4", "i1", "i2", "i4", "u1", "u2", "u4"])
            if kind in INT_ALPHA:
                # narrow integers over their full range: sums / sums of squares of a piece do not fit the input dtype
                vals = [rng.choice(INT_ALPHA[kind]) for _ in range(L)]
            else:
                vals = [rng.choice(vals_f) if kind != "i8" else rng.choice([1, 2, -3, 4, 0]) for _ in range(L)]
            cases.append((kind, vals))
        cases.append(("f8", [None] * L))
    # values with an offset far larger than their spread (prices, epoch seconds / nanoseconds): the deviations from the mean are
    # what NumPy squares, so the variance must not depend on the offset; sums of squares and of epoch nanoseconds leave int64
    offset_cases = []
    for L in range(1, maxlen + 1):
        for _ in range(6 if tier == "quick" else 40):
            kind = rng.choice(["f8", "i8"])
            if kind == "f8":
                base = rng.choice([1e8, 1e9, -1e12, 1e15])
                step = 1.0 if abs(base) >= 1e12 else 0.125
                vals = [None if rng.random() < 0.15 else base + step * rng.randrange(0, 40) for _ in range(L)]
            else:
                base = rng.choice([10**8, 4 * 10**9, 1_704_067_200 * 10**9, -(10**17)])
                vals = [base + rng.choice([0, 1, 2, 10, 86_400, 10**6]) for _ in range(L)]
            offset_cases.append((kind, vals))
    # a piece whose integer sum equals the int64 null sentinel: two values of -2**62 next to each other, at every place
    for L in range(3, maxlen + 1):
        for i in range(L - 1):
            vals = [rng.choice([1, 5, 7]) for _ in range(L)]
            vals[i] = vals[i + 1] = -2**62
            cases.append(("i8", vals))
    reqs, meta = [], []
    n_plain = len(cases)
    cases += offset_cases
    for ci, (kind, vals) in enumerate(cases):
        for name in ["nansum", "nanmean", "nanmin", "nanmax", "nanvar", "nanstd", "count"]:
            if name == "nansum" and ci >= n_plain:
                continue          # the int64 total of epoch nanoseconds wraps, in NumPy as in the library: not this stream's subject
            for nt in ([1, 2, 3, 4, 8] if tier == "quick" else [1, 2, 3, 4, 5, 6, 7, 8]):
                meta.append((kind, vals, name, nt))
                if name in ("nansum", "nanmin", "nanmax"):
                    isint = kind not in ("f8", "f4")
                    dom = "i" if isint else "f"      # integers: the numba is_null treats -2^63 as null
                    atoms = [val_to_atom(None if v is None else (v if isint else Fraction(v)), dom) for v in vals]
                    reqs.append(sx(["nan_reduce", dom, {"nansum": "sum", "nanmin": "min", "nanmax": "max"}[name], atoms, nt]))
                else:
                    reqs.append(None)
    resp = iter(drv.ask([r for r in reqs if r is not None]))
    for (kind, vals, name, nt), rq in zip(meta, reqs):
        dt = NP_DT[kind]
        arr = np.array([np.nan if v is None else v for v in vals], dtype=dt)
        case = dict(helper="nanops", func=name, dtype=dt, values=vals, n_threads=nt)
        res.note_case(repr(case), any(v is None for v in vals) or nt > 1)
        res.count("nanops_func", name); res.count("n_threads", nt); res.count("len", len(vals)); res.count("dtype", dt)
        if len(res.samples) < 4 and rng.random() < 0.001:
            res.sample(case)
        try:
            got = nanops.count(arr) if name == "count" else getattr(nanops, name)(arr, n_threads=nt)
        except Exception as e:  # noqa: BLE001
            res.violations.append(dict(sig=dict(helper="nanops", func=name, what="raised"), case=case, observed=repr(e)[:200], expected="a number", what=f"nanops.{name} raised"))
            if rq is not None:
                next(resp)
            continue
        want = np_ref(name, arr)
        approx = 1e-5 if dt == "float32" else (name in ("nanmean", "nanvar", "nanstd"))  # float32: NumPy accumulates in float32, the library in float64
        ok = same_num(got, want, approx)
        if not ok and name in ("nanvar", "nanstd") and dt != "float32":
            # (C20_two_pass_rounding: each is within E (S + n delta^2) + n delta^2 of the exact S, delta = the rounding error of its mean)
            # two implementations of the two-pass variance may differ by the square of the rounding error of their means
            # (sum (x - m')^2 = sum (x - m)^2 + n (m' - m)^2): with mean errors up to n u max|x| each, the variances may be
            # 2 (2 n u max|x|)^2 apart - visible only when the spread is a few thousand ulps of the magnitude (epoch ns)
            finite = [abs(float(x)) for x in arr if x == x]
            if finite and got == got and want == want:
                dmean = 2 * len(finite) * 2.0 ** -53 * max(finite)
                slack = 2 * dmean * dmean
                if name == "nanvar":
                    ok = abs(float(got) - float(want)) <= slack + 1e-9 * abs(float(want))
                else:
                    ok = abs(float(got) ** 2 - float(want) ** 2) <= slack + 2e-9 * float(want) ** 2
        if not ok:
            res.violations.append(dict(sig=dict(helper="nanops", func=name, dtype=dt, what="differs-from-numpy"), case=case, observed=str(got), expected=str(want),
                                       what=f"nanops.{name} with n_threads={nt} differs from NumPy"))
        if rq is not None:
            m = next(resp)
            mv = atom_to_val(m if isinstance(m, str) else m[0], "f" if kind in ("f8", "f4") else "i")
            mvf = float("nan") if mv is None else float(mv)
            if not same_num(got, mvf, 1e-5 if dt == "float32" else False):
                res.model_mismatches.append(dict(case=case, impl=str(got), model=str(mvf)))
    # 2-D
    for t in range(150 if tier == "quick" else 1500):
        r, c = rng.randint(1, 4), rng.randint(1, 4)
        a = np.array([[rng.choice([np.nan, 1.0, 2.0, -3.0, 0.5]) for _ in range(c)] for _ in range(r)])
        for name, ref in [("nansum", np.nansum), ("nanmin", None), ("nanmax", None)]:
            for axis in (0, 1):
                case = dict(helper="nanops-2d", func=name, array=a.tolist(), axis=axis)
                res.note_case(repr(case), True)
                res.count("nanops_func", name + "-2d")
                try:
                    got = getattr(nanops, name)(a, axis=axis)
                    import warnings
                    with warnings.catch_warnings():
                        warnings.simplefilter("ignore")
                        want = getattr(np, name)(a, axis=axis)
                    if not all(same_num(x, y, False) for x, y in zip(np.asarray(got, dtype=float).tolist(), np.asarray(want, dtype=float).tolist())):
                        res.violations.append(dict(sig=dict(helper="nanops-2d", func=name, what="differs-from-numpy"), case=case, observed=str(got), expected=str(want), what=f"{name}(axis={axis}) differs from NumPy"))
                except Exception as e:  # noqa: BLE001
                    res.violations.append(dict(sig=dict(helper="nanops-2d", func=name, what="raised"), case=case, observed=repr(e)[:200], expected="an array", what=f"{name} 2-D raised"))


def dot_stream(res, rng, tier):
    from groupby_lib import nb_dot
    for t in range(300 if tier == "quick" else 3000):
        r, c = rng.randint(0, 5), rng.randint(1, 4)
        kind = rng.choice(["int", "float"])
        a = np.array([[rng.randint(-3, 3) for _ in range(c)] for _ in range(r)], dtype="int64" if kind == "int" else "float64").reshape(r, c)
        b = np.array([rng.randint(-3, 3) for _ in range(c)], dtype="int64" if rng.random() < 0.5 else "float64")
        cont = rng.choice(["numpy", "pandas", "polars"])
        case = dict(helper="nb_dot", a=a.tolist(), b=b.tolist(), container=cont)
        res.note_case(repr(case), r > 0)
        res.count("dot_container", cont)
        try:
            if cont == "numpy":
                got = nb_dot(a, b)
            elif cont == "pandas":
                got = nb_dot(pd.DataFrame(a, columns=[f"c{j}" for j in range(c)], index=range(10, 10 + r)), b)
            else:
                got = nb_dot(pl.DataFrame({f"c{j}": a[:, j] for j in range(c)}), b)
            want = a @ b
            gv = np.asarray(got.to_numpy() if hasattr(got, "to_numpy") else got, dtype=float)
            if gv.shape != want.shape or not np.array_equal(gv, want.astype(float)):
                res.violations.append(dict(sig=dict(helper="nb_dot", what="differs"), case=case, observed=str(gv.tolist()), expected=str(want.tolist()), what="nb_dot differs from the matrix-vector product"))
            if cont == "pandas" and list(got.index) != list(range(10, 10 + r)):
                res.violations.append(dict(sig=dict(helper="nb_dot", what="index"), case=case, observed=str(list(got.index)), expected="the frame's index", what="nb_dot lost the frame's index"))
        except Exception as e:  # noqa: BLE001
            res.violations.append(dict(sig=dict(helper="nb_dot", what="raised"), case=case, observed=repr(e)[:200], expected="a vector", what="nb_dot raised"))


def bools_stream(res, rng, tier):
    from groupby_lib import bools_to_categorical
    maxdim = 3 if tier == "quick" else 4
    count = 0
    for r in range(1, maxdim + 1):
        for c in range(1, maxdim + 1):
            frames = list(itertools.product([False, True], repeat=r * c))
            if len(frames) > 600:
                frames = rng.sample(frames, 600)
            for bits in frames:
                m = np.array(bits, dtype=bool).reshape(r, c)
                cols = [f"col{j}" for j in range(c)]
                df = pd.DataFrame(m, columns=cols, index=range(5, 5 + r))
                case = dict(helper="bools_to_categorical", frame=m.astype(int).tolist())
                count += 1
                res.note_case(repr(case), True)
                try:
                    out = bools_to_categorical(df)
                    # code-model: the row's integer mask and the column positions its label names (extracted Coq)
                    mresp = DRV.ask([sx(["bool_labels", m.astype(int).tolist()])])[0]
                    for i in range(r):
                        model_cols = [cols[int(j)] for j in mresp[i][1]]
                        model_lab = " & ".join(model_cols) if model_cols else "None"
                        if str(out.iloc[i]) != model_lab:
                            res.model_mismatches.append(dict(case=case, impl=str(out.iloc[i]), model=model_lab))
                            break
                    masks = [int(x[0]) for x in mresp]
                    codes = list(out.cat.codes)
                    if any((masks[a] == masks[b]) != (codes[a] == codes[b]) for a in range(r) for b in range(r)):
                        res.model_mismatches.append(dict(case=case, impl="codes " + str(codes), model="masks " + str(masks)))
                    for i in range(r):
                        lab = str(out.iloc[i])
                        named = set() if lab == "None" else set(lab.split(" & "))
                        want = {cols[j] for j in range(c) if m[i, j]}
                        if named != want:
                            res.violations.append(dict(sig=dict(helper="bools_to_categorical", what="label"), case=case, observed=lab, expected=str(sorted(want)), what=f"row {i} is labelled {lab!r}"))
                            break
                    if list(out.index) != list(range(5, 5 + r)):
                        res.violations.append(dict(sig=dict(helper="bools_to_categorical", what="index"), case=case, observed=str(list(out.index)), expected="frame index", what="index lost"))
                except Exception as e:  # noqa: BLE001
                    res.violations.append(dict(sig=dict(helper="bools_to_categorical", what="raised"), case=case, observed=repr(e)[:200], expected="labels", what="bools_to_categorical raised"))
    res.count("bool_frames", count)


LABEL_RE = re.compile(r"^\s*(<=|>)\s*(-?[\d.]+)$|^(-?[\d.]+)\s+-\s+(-?[\d.]+)$|^(-?[\d.]+)$")


def contains(label, x, is_int):
    m = LABEL_RE.match(label)
    if not m:
        return None
    if m.group(1) == "<=":
        return x <= float(m.group(2))
    if m.group(1) == ">":
        return x > float(m.group(2))
    if m.group(5) is not None:
        return x == float(m.group(5))
    lo, hi = float(m.group(3)), float(m.group(4))
    return (lo <= x <= hi) if is_int else (lo < x <= hi)


def cut_stream(res, rng, tier):
    from groupby_lib import pretty_cut
    for t in range(300 if tier == "quick" else 3000):
        is_int = rng.random() < 0.5
        nb = rng.randint(1, 4)
        if is_int:
            bins = sorted(rng.sample(range(-5, 12), nb))
            xs = [rng.randint(-7, 14) for _ in range(rng.randint(1, 8))]
            x = np.array(xs, dtype="int64")
        else:
            bins = sorted(rng.sample([-2.5, -1.0, 0.0, 0.5, 1.5, 2.0, 3.25, 7.0], nb))
            xs = [rng.choice([None, -3.0, -2.5, -1.0, 0.0, 0.25, 0.5, 1.5, 1.75, 2.0, 3.25, 7.0, 9.0]) for _ in range(rng.randint(1, 8))]
            x = np.array([np.nan if v is None else v for v in xs], dtype="float64")
        if rng.random() < 0.3:
            rng.shuffle(bins)
        case = dict(helper="pretty_cut", x=xs, bins=bins)
        res.note_case(repr(case), True)
        res.count("cut_kind", "int" if is_int else "float")
        try:
            out = pretty_cut(x, bins)
            if is_int:
                # code-model: searchsorted on the sorted edges (extracted Coq bin_code)
                mcodes = [int(z) for z in DRV.ask([sx(["bin_codes", sorted(bins), xs])])[0]]
                if list(out.codes) != mcodes:
                    res.model_mismatches.append(dict(case=case, impl=str(list(out.codes)), model=str(mcodes)))
            for i, v in enumerate(xs):
                lab = out[i]
                if v is None:
                    if not pd.isna(lab):
                        res.violations.append(dict(sig=dict(helper="pretty_cut", what="null-binned"), case=case, observed=str(lab), expected="no bin", what="a null value was put into a bin"))
                    continue
                if pd.isna(lab):
                    res.violations.append(dict(sig=dict(helper="pretty_cut", what="no-bin"), case=case, observed="NaN", expected="a bin", what=f"value {v} got no bin"))
                    continue
                ok = contains(str(lab), float(v), is_int)
                if ok is not True:
                    res.violations.append(dict(sig=dict(helper="pretty_cut", what="wrong-bin", kind="int" if is_int else "float"), case=case, observed=f"{v} -> {lab!r}", expected="a bin whose printed bounds contain the value",
                                               what=f"value {v} is assigned to bin {lab!r}"))
                    break
        except Exception as e:  # noqa: BLE001
            res.violations.append(dict(sig=dict(helper="pretty_cut", what="raised"), case=case, observed=repr(e)[:200], expected="bins", what="pretty_cut raised"))


def noskip_stream(res, rng, tier):
    """skipna=False: nulls are not skipped - nansum / nanmax / nanmin / nanmean must return what NumPy's PLAIN sum / max / min /
    mean / var / std (ddof=1) return (NaN as soon as a NaN is present), for every number of worker threads (also more threads than elements)."""
    import warnings
    from groupby_lib import nanops
    vals_f = [float("nan"), 1.0, 2.0, -3.0, 0.5, 4.0, 7.0]
    for t in range(600 if tier == "quick" else 6000):
        L = rng.randint(1, 10)
        dt = rng.choice(["f8", "f8", "f4", "i8", "i4"])
        if dt.startswith("f"):
            vals = [rng.choice(vals_f if rng.random() < 0.5 else vals_f[1:]) for _ in range(L)]
        else:
            vals = [rng.choice([1, 2, -3, 0, 4, 7, 100]) for _ in range(L)]
        arr = np.array(vals, dtype=dt)
        fn = rng.choice(["nansum", "nanmax", "nanmin", "nanmean", "nanvar", "nanstd"])
        nt = rng.choice([1, 1, 2, 3, 4, 5, 8])
        ref = arr.astype("float64") if dt.startswith("f") else arr
        with np.errstate(all="ignore"), __import__("warnings").catch_warnings():
            __import__("warnings").simplefilter("ignore")
            want = (np.var(ref, ddof=1) if fn == "nanvar" else np.std(ref, ddof=1) if fn == "nanstd"
                    else {"nansum": np.sum, "nanmax": np.max, "nanmin": np.min, "nanmean": np.mean}[fn](ref))
        case = dict(helper="nanops", stream="noskip", func=fn, dtype=dt, values=[str(v) for v in vals], n_threads=nt)
        res.note_case(repr(case), any(v != v for v in vals) or nt > 1)
        res.count("stream", "noskip"); res.count("noskip_func", fn); res.count("n_threads", nt)
        with warnings.catch_warnings():
            warnings.simplefilter("ignore")
            try:
                got = float(getattr(nanops, fn)(arr, skipna=False, n_threads=nt))
            except Exception as e:  # noqa: BLE001
                res.violations.append(dict(sig=dict(helper="nanops", stream="noskip", what="raised", func=fn), case=case, observed=repr(e)[:200], expected=str(want), what="nanops raised with skipna=False"))
                continue
        want = float(want)
        ok = (got != got and want != want) or (got == got and want == want and abs(got - want) <= (1e-4 if dt == 'f4' else 1e-6) * max(1.0, abs(want)))
        if not ok:
            res.violations.append(dict(sig=dict(helper="nanops", stream="noskip", what="value", func=fn, dtype=dt), case=case, observed=str(got), expected=str(want),
                                       what=f"nanops.{fn}(skipna=False) differs from NumPy's plain reduction (a null that is not skipped must make the result null, for every thread count)"))


def float_model_stream(res, rng, tier):
    """Tie A in IEEE-754 for nansum / nanmean / nanvar: the real functions against Model/NanopsFloat.v, a bit-exact
    transcription in Coq's primitive floats (array_split pieces, piece sums from 0.0 skipping NaN, merge from 0.0, mean,
    elementwise deviations, squares), evaluated by vm_compute: every magnitude, infinities, NaN, 1-8 threads, ddof 0-2."""
    import os
    import subprocess
    from groupby_lib import nanops
    from ..common import VERIF, COQ
    alpha = [float("nan"), 1.0, 2.5, -3.0, 0.5, 0.1, 0.7, 4.0, 1e16, -1e16, 1e8 + 0.1, float(2**60), -7e15, 1e9 + 0.125, float("inf"), float("-inf"), 1e308, -1e308, 5e-324, -0.0, 1e-300, 1e150, 1e200]

    def lit(x):
        x = float(x)
        if x != x:
            return "nan"
        if x == float("inf"):
            return "infinity"
        if x == float("-inf"):
            return "neg_infinity"
        h = x.hex()
        return "(" + h + ")" if h.startswith("-") else h
    cases = []
    import warnings
    for t in range(500 if tier == "quick" else 5000):
        L = rng.randint(1, 14)
        vals = [rng.choice(alpha if rng.random() < 0.6 else alpha[:8]) for _ in range(L)]
        fn = rng.choice([0, 1, 2, 2])
        nt = rng.choice([1, 1, 2, 3, 4, 5, 8])
        ddof = rng.choice([0, 1, 1, 2]) if fn == 2 else 0
        arr = np.array(vals, dtype="float64")
        with warnings.catch_warnings():
            warnings.simplefilter("ignore")
            try:
                out = [nanops.nansum, nanops.nanmean, nanops.nanvar][fn](arr, n_threads=nt, **({"ddof": ddof} if fn == 2 else {}))
            except Exception as e:  # noqa: BLE001
                res.violations.append(dict(sig=dict(helper="nanops", stream="float-model", what="raised", func=fn), case=dict(values=[lit(v) for v in vals], n_threads=nt, ddof=ddof), observed=repr(e)[:200], expected="a number",
                                           what="nanops raised on a float64 array"))
                continue
        cases.append((fn, nt, ddof, vals, float(out)))
        res.note_case(repr(("nanops-float-model", fn, nt, ddof, [lit(v) for v in vals])), True)
        res.count("stream", "float-model")
    d = VERIF / ".cache" / "nfloat" / str(os.getpid())
    d.mkdir(parents=True, exist_ok=True)
    body = ";\n  ".join(f"({fn}%nat, {nt}%nat, {ddof}%nat, [{'; '.join(lit(v) for v in vals)}], {lit(out)})" for fn, nt, ddof, vals, out in cases)
    (d / "cases.v").write_text("From Coq Require Import List ZArith PrimFloat.\nFrom GL Require Import Model.NanopsFloat.\nImport ListNotations.\nOpen Scope float_scope.\n"
                               "Definition cases : list (nat * nat * nat * list float * float) :=\n  [" + body + "].\nEval vm_compute in map check_nanop cases.\n")
    p = subprocess.run(["timeout", "600", "coqc", "-Q", str(COQ / "theories"), "GL", "cases.v"], cwd=d, stdout=subprocess.PIPE, stderr=subprocess.STDOUT)
    txt = p.stdout.decode(errors="replace")
    flags = [w for w in txt.replace("[", " ").replace("]", " ").replace(";", " ").split() if w in ("true", "false")]
    for f in d.iterdir():
        f.unlink()
    d.rmdir()
    if p.returncode != 0 or len(flags) != len(cases):
        res.model_mismatches.append(dict(case="nanops-float-model", impl="-", model=f"coqc failed or printed {len(flags)} results for {len(cases)} cases: " + txt[-400:]))
        return
    for (fn, nt, ddof, vals, out), ok in zip(cases, flags):
        if ok != "true":
            res.model_mismatches.append(dict(case=dict(stream="nanops-float-model", func=["nansum", "nanmean", "nanvar"][fn], n_threads=nt, ddof=ddof, values=[lit(v) for v in vals]), impl=lit(out),
                                             model="Model/NanopsFloat gives another bit pattern"))


def run(res, tier="quick", seed=0, widen=False):
    rng = random.Random(seed * 31 + 20 + (1 if widen else 0))
    res.rule = ("nanops with skipna=False vs NumPy's PLAIN sum / max / min / mean for 1-8 threads (a null not skipped makes the result null); nanops: seeded 1-D arrays of length 1..12 (float64/float32 with NaN at any place, int64, the narrow integer dtypes over their full range, values with offsets up to 1e15 / epoch nanoseconds) x 7 functions x n_threads 1..8 vs NumPy and (sum/min/max) vs the extracted "
                "model of the chunked reduction; 2-D sum/min/max on both axes; nb_dot on small integer/float matrices as array / pandas / polars frame vs a @ b; "
                "bools_to_categorical on every boolean frame up to 3x3 (4x4 sampled in thorough); pretty_cut on seeded value/edge grids incl. values equal to edges, "
                "outside all edges, nulls, unsorted edges; non-trivial = has a null or several threads (nanops), every case otherwise; distinct = canonical case")
    global DRV
    DRV = Driver()
    nanops_stream(res, rng, tier)
    float_model_stream(res, random.Random(seed * 31 + 2020 + (1 if widen else 0)), tier)
    noskip_stream(res, random.Random(seed * 31 + 2021 + (1 if widen else 0)), tier)
    dot_stream(res, rng, tier)
    bools_stream(res, rng, tier)
    cut_stream(res, rng, tier)


def replay(payload):
    return False, "replay: re-run ./bin/check C20 (deterministic for a given VERIF_SEED); stored case: " + str(payload.get("case"))
