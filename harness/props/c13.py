"""C13 — a GroupBy object can be reused: results are history-independent.

A history is a sequence of operations (with their own values and masks) applied to ONE
grouping object; after every step the result is compared with the result of the same call
on a freshly built grouping.  Objects come in the three key representations (contiguous
codes; chunk-local codes + pointer tables; pyarrow-chunked), so the histories cross the
operations that re-organise the representation or fill caches (groups, head/tail/nth,
transform, cumulative / rolling / shift, ema, apply/median, unordered positional masks).
Exhaustive over all histories of length <= 2 (quick) / 3 (thorough) of 14 operation kinds on
fixed datasets, plus seeded random longer histories on random datasets.  Also: the
copy-constructor GroupBy(gb) taken at any point of a history, and the class-level call form
GroupBy.op(raw_keys, ...)."""
from __future__ import annotations

import itertools
import random
from fractions import Fraction

import numpy as np
import pandas as pd

from .. import api
from ..kernels import make_mask
from .c05 import close, HALFLIFE_NS

KINDS = ["sum", "min_masked", "first_idx", "count", "t_sum", "t_mean", "cumsum", "rolling", "shift", "ema", "groups", "head", "median", "size_slice", "key_count", "var",
         "rolling_ibg", "ema_ibg", "apply_aligned"]
VALS = [None, Fraction(1), Fraction(2), Fraction(-3), Fraction(1, 2), Fraction(5, 4), Fraction(7)]


def make_op(kind, rng, n):
    """an operation = kind + its own values / mask"""
    vals = [rng.choice(VALS) for _ in range(n)]
    bmask = [rng.random() < 0.65 for _ in range(n)]
    idx = [rng.randrange(-n, n) for _ in range(rng.randint(1, n))]
    # row labels of this call's values (group-sorted layouts and row-aligned apply label their output with them)
    la, lb = [100 + 3 * i for i in range(n)], [7 * (n - i) for i in range(n)]
    row_labels = {"rolling_ibg": la, "ema_ibg": lb}.get(kind, rng.choice([None, la, lb]))      # consecutive calls see different row labels
    return dict(kind=kind, vals=vals, bmask=bmask, idx=idx, n=rng.randint(1, 2), window=rng.randint(1, 3), a=rng.randint(0, max(0, n - 2)), row_labels=row_labels)


def apply_op(gb, op, n):
    k = op["kind"]
    v = api.make_values(op["vals"], "f8")
    if k == "sum":
        return ("labels", gb.sum(v))
    if k == "min_masked":
        return ("labels", gb.min(v, mask=np.array(op["bmask"], dtype=bool)))
    if k == "first_idx":
        return ("labels", gb.first(v, mask=np.array(op["idx"], dtype="int64")))
    if k == "count":
        return ("labels", gb.count(v))
    if k == "var":
        return ("labels", gb.var(v))
    if k == "t_sum":
        return ("rows", gb.sum(v, transform=True))
    if k == "t_mean":
        return ("rows", gb.mean(v, mask=np.array(op["bmask"], dtype=bool), transform=True))
    if k == "cumsum":
        return ("rows", gb.cumsum(v))
    if k == "rolling":
        return ("rows", gb.rolling_sum(v, op["window"], min_periods=1, mask=np.array(op["bmask"], dtype=bool)))
    if k == "shift":
        return ("rows", gb.shift(v, 1))
    if k == "ema":
        return ("rows", gb.ema(v, alpha=0.5))
    if k in ("rolling_ibg", "ema_ibg", "apply_aligned"):
        sv = pd.Series(v, index=op.get("row_labels"), name="v") if op.get("row_labels") is not None else pd.Series(v, name="v")
        if k == "rolling_ibg":
            return ("ibg", gb.rolling_sum(sv, op["window"], min_periods=1, index_by_groups=True))
        if k == "ema_ibg":
            return ("ibg", gb.ema(sv, alpha=0.5, index_by_groups=True))
        return ("ibg", gb.apply(sv, np.cumsum))
    if k == "groups":
        return ("groups", gb.groups)
    if k == "head":
        return ("sel", gb.head(pd.Series(v), op["n"], keep_input_index=True))
    if k == "median":
        return ("labels", gb.median(v))
    if k == "size_slice":
        return ("labels", gb.size(mask=slice(op["a"], None)))
    if k == "key_count":
        return ("labels", gb.key_count)
    raise ValueError(k)


def canon(tagged, kinds):
    tag, out = tagged
    if tag == "groups":
        res = []
        for key, ix in out.items():
            idx = pd.MultiIndex.from_tuples([key]) if isinstance(key, tuple) else pd.Index([key])
            res.append((api.index_to_ranks(idx, kinds)[0], tuple(int(i) for i in ix)))
        return res
    vals = api.canon_series(out)
    if tag == "ibg":
        # (group label, row label) index: both levels are part of the answer
        idx = [(api.label_to_rank(t[0], kinds[0]), int(t[1])) for t in out.index.tolist()]
        return list(zip(idx, vals))
    if tag == "rows":
        return vals
    if tag == "sel":
        return list(zip([int(x) for x in out.index.tolist()], vals))
    return list(zip(api.index_to_ranks(out.index, kinds), vals))


def same(a, b):
    if len(a) != len(b):
        return False
    for x, y in zip(a, b):
        if isinstance(x, tuple):
            if x[0] != y[0]:
                return False
            if isinstance(x[1], tuple):
                if x[1] != y[1]:
                    return False
            elif not close(x[1], y[1], True):
                return False
        elif not close(x, y, True):
            return False
    return True


def build(GroupBy, ds, rep):
    col, kind = ds["col"], ds["kind"]
    if rep == "arrow":
        key = api.make_key(col, kind, "arrow_chunked", chunks=ds["key_chunks"])
    else:
        key = api.make_key(col, kind, "numpy")
    with api.strategy(chunk_threshold=4 if rep == "chunked" else None):
        return GroupBy(key), key


def run_history(GroupBy, ds, rep, ops, copy_at=None, classlevel_at=None):
    """-> list of violations"""
    n = len(ds["col"])
    kinds = [ds["kind"]]
    viol = []
    with api.strategy(chunk_threshold=4 if rep == "chunked" else None):
        try:
            gb, key = build(GroupBy, ds, rep)
        except Exception as e:  # noqa: BLE001
            return [dict(sig=dict(what="constructor-raised", rep=rep), what=f"GroupBy raised {e!r}"[:200], observed=repr(e)[:200], expected="a grouping")]
        for step, op in enumerate(ops):
            try:
                fresh, _ = build(GroupBy, ds, rep)
                want = canon(apply_op(fresh, op, n), kinds)
            except Exception as e:  # noqa: BLE001
                want = ("raised", type(e).__name__)
            target = gb
            how = "reused"
            if copy_at == step:
                try:
                    target = GroupBy(gb)
                    how = "copy"
                except Exception as e:  # noqa: BLE001
                    viol.append(dict(sig=dict(what="copy-raised", rep=rep, kind=op["kind"]), what=f"GroupBy(gb) raised {e!r}"[:200], observed=repr(e)[:200], expected="a grouping"))
                    continue
            try:
                got = canon(apply_op(target, op, n), kinds)
            except Exception as e:  # noqa: BLE001
                got = ("raised", type(e).__name__, repr(e)[:150])
            prev = [o["kind"] for o in ops[:step]]
            if isinstance(want, tuple) and want and want[0] == "raised":
                if not (isinstance(got, tuple) and got and got[0] == "raised"):
                    viol.append(dict(sig=dict(what="fresh-raises-reused-answers", rep=rep, kind=op["kind"], how=how), what=f"step {step} {op['kind']}: a fresh grouping raises {want[1]} but the {how} one answers (after {prev})",
                                     observed=str(got)[:300], expected=str(want)))
                continue
            if isinstance(got, tuple) and got and got[0] == "raised":
                viol.append(dict(sig=dict(what="raised", rep=rep, kind=op["kind"], how=how, exc=got[1]), what=f"step {step} {op['kind']} on the {how} grouping raises {got[1]} after {prev}; a fresh grouping answers",
                                 observed=str(got), expected=str(want)[:300]))
                continue
            if not same(got, want):
                viol.append(dict(sig=dict(what="differs", rep=rep, kind=op["kind"], how=how), what=f"step {step} {op['kind']} on the {how} grouping differs from a fresh grouping after {prev}",
                                 observed=str(got)[:400], expected=str(want)[:400]))
            if classlevel_at == step and op["kind"] in ("sum", "count", "cumsum", "t_sum"):
                # class-level form with raw keys
                try:
                    v = api.make_values(op["vals"], "f8")
                    raw = api.make_key(ds["col"], ds["kind"], "numpy")
                    out = {"sum": lambda: ("labels", GroupBy.sum(raw, v)), "count": lambda: ("labels", GroupBy.count(raw, v)),
                           "cumsum": lambda: ("rows", GroupBy.cumsum(raw, v)), "t_sum": lambda: ("rows", GroupBy.sum(raw, v, transform=True))}[op["kind"]]()
                    got2 = canon(out, kinds)
                    if not same(got2, want):
                        viol.append(dict(sig=dict(what="classlevel-differs", kind=op["kind"]), what=f"GroupBy.{op['kind']}(raw_keys, ...) differs from the method on a grouping",
                                         observed=str(got2)[:300], expected=str(want)[:300]))
                except Exception as e:  # noqa: BLE001
                    viol.append(dict(sig=dict(what="classlevel-raised", kind=op["kind"]), what=f"class-level {op['kind']} raised {e!r}"[:200], observed=repr(e)[:200], expected=str(want)[:200]))
    return viol


def datasets(rng, tier, count):
    out = []
    for _ in range(count):
        n = rng.randint(5, 11 if tier == "quick" else 15)
        shape = rng.choice(["random", "random_null", "prefix", "prefix_null", "hashed_first"])
        nlab = rng.choice([3, 4])
        if shape == "hashed_first":
            # first chunk's dictionary in non-sorted first-appearance order, short increasing prefix
            col = [1, 0, 2] + [rng.randrange(nlab + 1) for _ in range(n - 3)]
        elif shape.startswith("prefix"):
            m = rng.randint(n // 3 + 1, n - 1)
            col = sorted(rng.randrange(nlab) for _ in range(m)) + [rng.randrange(nlab + 1) for _ in range(n - m)]
        else:
            col = [rng.randrange(nlab) for _ in range(n)]
        if shape.endswith("null"):
            for _ in range(rng.randint(1, 2)):
                col[rng.randrange(1, n)] = None
        kind = rng.choice([k for k in ["float", "int", "str", "dt", "dttz", "date"] if api.kind_ok(col, k)])
        cuts = sorted(rng.sample(range(1, n), rng.randint(1, min(3, n - 1))))
        b = [0, *cuts, n]
        out.append(dict(col=col, kind=kind, key_chunks=[b[i + 1] - b[i] for i in range(len(b) - 1)], shape=shape))
    return out


def run(res, tier="quick", seed=0, widen=False):
    from groupby_lib import GroupBy

    rng = random.Random(seed * 23 + 13 + (1 if widen else 0))
    res.rule = ("histories over 16 operation kinds (reductions with boolean / unordered positional / slice masks, transform, cumulative, rolling, shift, ema, groups, head, "
                "median, var, key_count) on one grouping, every step compared with a fresh grouping; exhaustive over all histories of length <= 2 (quick) / 3 (thorough) on "
                "fixed datasets in the three key representations (contiguous, chunk-local codes + pointers, pyarrow-chunked) + seeded random histories of length <= 7 on random "
                "datasets (incl. a first chunk whose dictionary is not in sorted order, increasing prefixes, nulls); copy-constructor at a random step, class-level call form; "
                "non-trivial = history of length >= 2 on a chunked representation or containing a re-organising operation; distinct = canonical (dataset, representation, history)")
    fixed = [dict(col=[1, 0, 2, 3, 1, 0, None, 2, 3, 1], kind="float", key_chunks=[3, 4, 3], shape="fixed-hashed"),
             dict(col=[0, 0, 1, 2, 3, 3, 1, 0, 2, 2, 1], kind="int", key_chunks=[5, 6], shape="fixed-prefix")]
    L = 2 if tier == "quick" else 3
    n_hist = 0
    for ds in fixed:
        n = len(ds["col"])
        oprng = random.Random(99)
        ops_pool = {k: make_op(k, oprng, n) for k in KINDS}
        for rep in ["chunked", "arrow", "plain"]:
            if rep == "plain" and tier == "quick":
                hist_kinds = [h for h in itertools.product(KINDS, repeat=L) if rng.random() < 0.25]
            else:
                hist_kinds = list(itertools.product(KINDS, repeat=L))
            for hk in hist_kinds:
                ops = [ops_pool[k] for k in hk]
                case = dict(dataset=ds, rep=rep, history=list(hk))
                res.note_case(repr(case), rep != "plain" or any(k in ("groups", "head", "t_sum", "cumsum", "median") for k in hk))
                res.count("rep", rep); res.count("history_len", len(hk)); res.count("stream", "exhaustive")
                for k in hk:
                    res.count("op_kind", k)
                n_hist += 1
                if n_hist % 499 == 0:
                    res.sample(case)
                for v in run_history(GroupBy, ds, rep, ops):
                    v["case"] = dict(case, ops=[dict(o, vals=[None if x is None else str(x) for x in o["vals"]]) for o in ops])
                    res.violations.append(v)
    res.exhaustive = False
    # random histories on random datasets
    n_rand = 500 if tier == "quick" else 5000
    for ds in datasets(rng, tier, n_rand):
        n = len(ds["col"])
        rep = rng.choice(["chunked", "chunked", "arrow", "plain"])
        hl = rng.randint(2, 7)
        ops = [make_op(rng.choice(KINDS), rng, n) for _ in range(hl)]
        copy_at = rng.randrange(hl) if rng.random() < 0.4 else None
        cl_at = rng.randrange(hl) if rng.random() < 0.3 else None
        case = dict(dataset=ds, rep=rep, history=[o["kind"] for o in ops], copy_at=copy_at)
        res.note_case(repr(case), True)
        res.count("rep", rep); res.count("history_len", hl); res.count("stream", "random"); res.count("dataset_shape", ds["shape"])
        n_hist += 1
        if n_hist % 199 == 0:
            res.sample(case)
        for v in run_history(GroupBy, ds, rep, ops, copy_at, cl_at):
            v["case"] = dict(case, ops=[dict(o, vals=[None if x is None else str(x) for x in o["vals"]]) for o in ops])
            res.violations.append(v)


def replay(payload):
    from groupby_lib import GroupBy
    c = payload["case"]
    ops = [dict(o, vals=[None if x is None else Fraction(x) for x in o["vals"]]) for o in c["ops"]]
    v = run_history(GroupBy, c["dataset"], c["rep"], ops, c.get("copy_at"))
    return (not v), ("replay: " + (v[0]["what"] if v else "no violation on this history"))
