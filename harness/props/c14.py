"""C14 — margins and cross-tabulation totals equal the aggregate of what they summarise.

Oracle: exact aggregation (Fractions) over the selected rows of the logical dataset.
 GroupBy.<agg>(values, mask, margins=True | [levels]): every ordinary row equals the result
   without margins; every 'All' row (All in any non-empty subset of the requested levels, the
   other components an observed combination) equals the same aggregation over all selected rows
   it summarises (sum/count/size add up, min/max extremes, mean = total sum / total count); no
   'All' in a level that was not requested; no other rows.
 crosstab(index, columns, values, aggfunc, mask, margins): every cell equals the aggregation over
   the rows with that row key and column key, absent combinations are null, row / column margins
   equal the one-way aggregations, the corner the grand total."""
from __future__ import annotations

import itertools
import random
from fractions import Fraction

import numpy as np
import pandas as pd

from .. import api
from ..common import to_frac
from ..kernels import selected_positions
from .c05 import close

AGGS = ["sum", "count", "size", "min", "max", "mean"]
VALS = [None, Fraction(1), Fraction(2), Fraction(-3), Fraction(1, 2), Fraction(5, 4), Fraction(7)]
TICKS = [None, 2**55 + 1, 2**55 + 86_400_000_000_003, 2**54 + 7, -(2**55) - 5, 10, 20]


def agg_exact(agg, xs):
    """xs: values of the selected rows (None = null) -> exact result"""
    nn = [x for x in xs if x is not None]
    if agg == "size":
        return len(xs)
    if agg == "count":
        return len(nn)
    if agg == "sum":
        return sum(nn, Fraction(0))
    if agg == "mean":
        return Fraction(float(sum(nn, Fraction(0))) / len(nn)) if nn else None
    if agg == "min":
        return min(nn) if nn else None
    if agg == "max":
        return max(nn) if nn else None
    raise ValueError(agg)


def gen_keys(rng, n, nkeys, null_ok=True):
    cols, kinds = [], []
    for _ in range(nkeys):
        nlab = rng.choice([2, 3])
        col = [rng.randrange(nlab) for _ in range(n)]
        if null_ok and rng.random() < 0.25:
            col[rng.randrange(n)] = None
        kinds.append(rng.choice([k for k in ["int", "str", "float"] if api.kind_ok(col, k)]))
        cols.append(col)
    return cols, kinds


def expected_margins(keycols, vals, sel, agg, levels, exact_mean=False):
    if exact_mean and agg == "mean":
        def agg_fn(xs):
            nn = [x for x in xs if x is not None]
            return Fraction(sum(nn), len(nn)) if nn else None
    else:
        def agg_fn(xs):
            return agg_exact(agg, xs)
    return _expected_margins(keycols, vals, sel, agg_fn, levels)


def _expected_margins(keycols, vals, sel, agg_fn, levels):
    n = len(vals)
    nk = len(keycols)
    rows = [i for i in sel if all(col[i] is not None for col in keycols)]
    out = {}
    combos = {tuple(col[i] for col in keycols) for i in rows}
    for t in combos:
        out[t] = agg_fn([vals[i] for i in rows if tuple(col[i] for col in keycols) == t])
    for r in range(1, len(levels) + 1):
        for S in itertools.combinations(levels, r):
            seen = {tuple("All" if j in S else col[i] for j, col in enumerate(keycols)) for i in rows}
            for t in seen:
                match = [i for i in rows if all(t[j] == "All" or keycols[j][i] == t[j] for j in range(nk))]
                out[t] = agg_fn([vals[i] for i in match])
    return out


def margins_stream(res, rng, tier, GroupBy):
    for t in range(700 if tier == "quick" else 7000):
        n = rng.randint(1, 10)
        nkeys = rng.choice([1, 2, 2, 3])
        keycols, kinds = gen_keys(rng, n, nkeys)
        # value dtype: mostly floats; a third of the cases tick counts (datetime64 / timedelta64) above 2^53, whose sums
        # stay inside 64 bits: margins of temporal values must be formed in whole numbers, like the ordinary rows
        vdt = rng.choice(["f8", "f8", "M8", "m8"])
        if vdt == "f8":
            vals = [rng.choice(VALS) for _ in range(n)]
            agg = rng.choice(AGGS)
        else:
            vals = [rng.choice(TICKS) for _ in range(n)]
            agg = rng.choice(["count", "size", "min", "max", "mean", "mean"] + (["sum"] if vdt == "m8" else []))
        frame = vdt != "f8" and agg != "size" and rng.random() < 0.4      # a frame mixing a float and a temporal column
        warm_ = rng.choice([None, None, None] + api.WARM_OPS)
        mask = None if rng.random() < 0.6 else ("b", [rng.random() < 0.7 for _ in range(n)])
        if nkeys == 1 or rng.random() < 0.5:
            margins, levels = True, list(range(nkeys))
        else:
            k = rng.randint(1, nkeys)
            levels = sorted(rng.sample(range(nkeys), k))
            margins = levels
        fvals = [rng.choice(VALS) for _ in range(n)] if frame else None
        case = dict(stream="margins", keys=keycols, key_kinds=kinds, values=[None if v is None else str(v) for v in vals], agg=agg, mask=mask, margins=margins, vdt=vdt,
                    frame_float_column=None if fvals is None else [None if v is None else str(v) for v in fvals])
        res.note_case(repr(case), nkeys >= 2 or mask is not None)
        res.count("stream", "margins"); res.count("agg", agg); res.count("nkeys", nkeys); res.count("levels", str(margins)); res.count("value_dtype", vdt + ("+frame" if frame else ""))
        if t % 199 == 0:
            res.sample(case)
        sel = selected_positions(n, mask)
        want = expected_margins(keycols, vals, sel, agg, levels, exact_mean=(vdt != "f8"))
        if not want:
            continue
        try:
            keys = [api.make_key(col, kind, "numpy") for col, kind in zip(keycols, kinds)]
            gb = GroupBy(keys if nkeys > 1 else keys[0])
            api.warm(gb, warm_, n)          # the grouping may have been used before
            m = None if mask is None else np.array(mask[1], dtype=bool)
            v = api.make_values(vals, vdt)
            if frame:
                v = pd.DataFrame({"f": api.make_values(fvals, "f8"), "t": v})
            out = gb.size(mask=m, margins=margins) if agg == "size" else getattr(gb, agg)(v, mask=m, margins=margins)
        except Exception as e:  # noqa: BLE001
            res.violations.append(dict(sig=dict(stream="margins", what="raised", agg=agg, nkeys=nkeys, vdt=vdt, exc=type(e).__name__), case=case, observed=repr(e)[:200], expected=str(want)[:200], what=f"{agg}(margins={margins}) raised"))
            continue
        sig = dict(stream="margins", agg=agg, nkeys=nkeys, margins="all" if margins is True else "subset", vdt=vdt + ("+frame" if frame else ""))
        if frame:
            # the float column next to the temporal one must be what it is on its own
            fwant = expected_margins(keycols, fvals, sel, agg, levels)
            fgot = dict(zip(api.index_to_ranks(out.index, kinds), api.canon_series(out["f"])))
            fbad = {k: (fgot.get(k), fwant[k]) for k in fwant if not close(fgot.get(k), None if fwant[k] is None else Fraction(fwant[k]), agg == "mean")}
            if set(fgot) != set(fwant) or fbad:
                res.violations.append(dict(sig={**sig, "what": "float-column-of-mixed-frame"}, case=case, observed=str({str(k): str(v[0]) for k, v in fbad.items()} or sorted(fgot, key=str))[:300],
                                           expected=str({str(k): str(v[1]) for k, v in fbad.items()} or sorted(fwant, key=str))[:300], what=f"{agg} with margins: the float column of a mixed frame differs from the aggregate of what its rows summarise"))
            out = out["t"]
        got = dict(zip(api.index_to_ranks(out.index, kinds), api.canon_series(out)))
        if len(got) != len(out):
            res.violations.append(dict(sig={**sig, "what": "duplicate-rows"}, case=case, observed=str(out.index.tolist()), expected="distinct rows", what="a row appears twice"))
        extra = sorted(set(got) - set(want), key=str)
        missing = sorted(set(want) - set(got), key=str)
        if extra or missing:
            res.violations.append(dict(sig={**sig, "what": "rows"}, case=case, observed=f"extra {extra} missing {missing}", expected=str(sorted(want, key=str)),
                                       what="the rows reported are not the ordinary rows plus the requested 'All' combinations"))
            continue
        if vdt == "f8":
            bad = {k: (got[k], want[k]) for k in want if not close(got[k], None if want[k] is None else Fraction(want[k]), agg == "mean")}
        else:
            # tick counts: exact, a mean to within one tick of the exact rational mean
            bad = {k: (got[k], want[k]) for k in want if (got[k] is None) != (want[k] is None) or (want[k] is not None and abs(Fraction(int(got[k])) - Fraction(want[k])) >= (1 if agg == "mean" else Fraction(1, 2)))}
        if bad:
            what = "all-row" if any("All" in k for k in bad) else "ordinary-row"
            res.violations.append(dict(sig={**sig, "what": what}, case=case, observed=str({str(k): str(v[0]) for k, v in bad.items()}), expected=str({str(k): str(v[1]) for k, v in bad.items()}),
                                       what=f"{agg} with margins: rows {sorted(bad, key=str)} differ from the aggregate of what they summarise"))


def crosstab_stream(res, rng, tier):
    from groupby_lib.groupby.core import crosstab
    for t in range(400 if tier == "quick" else 4000):
        n = rng.randint(1, 10)
        nr, nc = rng.choice([1, 1, 2]), rng.choice([1, 1, 2])
        rcols, rkinds = gen_keys(rng, n, nr, null_ok=False)
        ccols, ckinds = gen_keys(rng, n, nc, null_ok=False)
        vals = [rng.choice(VALS[1:]) for _ in range(n)]
        agg = rng.choice(["sum", "count", "min", "max", "mean", "size"])
        margins = rng.choice([False, True, True, "row", "column"])
        mask = None if rng.random() < 0.7 else ("b", [rng.random() < 0.7 for _ in range(n)])
        case = dict(stream="crosstab", rows=rcols, cols=ccols, row_kinds=rkinds, col_kinds=ckinds, values=[str(v) for v in vals], agg=agg, margins=margins, mask=mask)
        res.note_case(repr(case), True)
        res.count("stream", "crosstab"); res.count("crosstab_margins", str(margins)); res.count("crosstab_shape", f"{nr}x{nc}")
        if t % 199 == 0:
            res.sample(case)
        sel = selected_positions(n, mask)
        if not sel:
            continue
        try:
            idx = [api.make_key(c, k, "numpy") for c, k in zip(rcols, rkinds)]
            cols = [api.make_key(c, k, "numpy") for c, k in zip(ccols, ckinds)]
            m = None if mask is None else np.array(mask[1], dtype=bool)
            if agg == "size":
                tab = crosstab(idx if nr > 1 else idx[0], cols if nc > 1 else cols[0], mask=m, margins=margins)
            else:
                tab = crosstab(idx if nr > 1 else idx[0], cols if nc > 1 else cols[0], api.make_values(vals, "f8"), aggfunc=agg, mask=m, margins=margins)
        except Exception as e:  # noqa: BLE001
            res.violations.append(dict(sig=dict(stream="crosstab", what="raised", agg=agg, margins=str(margins), exc=type(e).__name__), case=case, observed=repr(e)[:200], expected="a table", what="crosstab raised"))
            continue
        row_labels = api.index_to_ranks(tab.index, rkinds)
        col_labels = api.index_to_ranks(tab.columns, ckinds)
        got = {}
        for i, rl in enumerate(row_labels):
            for j, cl in enumerate(col_labels):
                x = tab.iloc[i, j]
                got[(rl, cl)] = None if pd.isna(x) else to_frac(x)
        do_row = margins in (True, "row")        # 'All' in the row keys
        do_col = margins in (True, "column")
        want = {}
        rts = {tuple(c[i] for c in rcols) for i in sel}
        cts = {tuple(c[i] for c in ccols) for i in sel}
        row_opts = set(rts)
        col_opts = set(cts)
        if do_row:
            for r in range(1, nr + 1):
                for S in itertools.combinations(range(nr), r):
                    row_opts |= {tuple("All" if j in S else rt[j] for j in range(nr)) for rt in rts}
        if do_col:
            for r in range(1, nc + 1):
                for S in itertools.combinations(range(nc), r):
                    col_opts |= {tuple("All" if j in S else ct[j] for j in range(nc)) for ct in cts}
        for rl in row_opts:
            for cl in col_opts:
                match = [i for i in sel if all(rl[j] == "All" or rcols[j][i] == rl[j] for j in range(nr)) and all(cl[j] == "All" or ccols[j][i] == cl[j] for j in range(nc))]
                want[(rl, cl)] = agg_exact(agg, [vals[i] for i in match]) if match else None
        sig = dict(stream="crosstab", agg=agg, margins=str(margins), shape=f"{nr}x{nc}")
        # cells the table does not hold at all are absent combinations: they must be null in the oracle
        bad = {}
        for k, w in want.items():
            g = got.get(k, None)
            if not close(g, None if w is None else Fraction(w), agg == "mean"):
                bad[k] = (g, w)
        spurious = {k: v for k, v in got.items() if k not in want and v is not None}
        if bad or spurious:
            res.violations.append(dict(sig={**sig, "what": "cell" if bad else "spurious-cell"}, case=case, observed=str({str(k): str(v[0]) for k, v in bad.items()} or {str(k): str(v) for k, v in spurious.items()})[:400],
                                       expected=str({str(k): str(v[1]) for k, v in bad.items()})[:400], what="crosstab cells / margins differ from the aggregation of the rows they stand for"))


def add_row_margin_stream(res, rng, tier):
    """core.add_row_margin itself against the extracted model (Model/Margins.add_row_margin, agg = integer addition): a Series
    with a 1-4 level MultiIndex of sparse label combinations, every subset of requested levels; compared as mappings
    key -> value ('All' rows included), duplicates of the model (one subset reached through several levels) must agree."""
    from groupby_lib.groupby.core import add_row_margin
    from ..common import Driver, sx
    drv = Driver()
    cases = []
    for t in range(250 if tier == "quick" else 2500):
        n = rng.choice([1, 2, 2, 3, 3, 4])
        nrows = rng.randint(1, 7)
        keys = set()
        while len(keys) < nrows:
            keys.add(tuple(rng.randrange(rng.choice([2, 3])) for _ in range(n)))
            if len(keys) >= 2 ** n and nrows > len(keys):
                break
        keys = sorted(keys)
        vals = [rng.choice([1, 2, 3, 5, 7, 11, -4, 2**53 + 1]) for _ in keys]
        if n == 1 or rng.random() < 0.4:
            levels = None
        else:
            levels = sorted(rng.sample(range(n), rng.randint(1, n)))
        cases.append((n, keys, vals, levels))
    reqs = [sx(["add_row_margin", str(n), [str(l) for l in (levels if levels is not None else range(n))], [[[str(x) for x in k], str(v)] for k, v in zip(keys, vals)]])
            for n, keys, vals, levels in cases]
    resp = drv.ask(reqs)
    for (n, keys, vals, levels), r in zip(cases, resp):
        case = dict(stream="add_row_margin", nlevels=n, keys=[list(k) for k in keys], values=vals, levels=levels)
        res.note_case(repr(case), True)
        res.count("stream", "add_row_margin"); res.count("arm_levels", n); res.count("arm_subset", "all" if levels is None else len(levels))
        model = {}
        inconsistent = False
        for k, v in r:
            kk = tuple("All" if x == "A" else int(x) for x in k)
            if kk in model and model[kk] != int(v):
                inconsistent = True
            model[kk] = int(v)
        if inconsistent:
            res.model_mismatches.append(dict(case=case, impl="-", model="the model produced one key twice with different values: " + str(r)[:300]))
            continue
        try:
            if n == 1:
                ser = pd.Series(vals, index=pd.Index([k[0] for k in keys], name="k0"), dtype="int64")
                out = add_row_margin(ser, "sum")
                got = {(("All",) if x == "All" else (int(x),)): int(v) for x, v in out.items()}
            else:
                ser = pd.Series(vals, index=pd.MultiIndex.from_tuples(keys, names=[f"k{i}" for i in range(n)]), dtype="int64")
                out = add_row_margin(ser, "sum", levels=levels)
                got = {tuple("All" if x == "All" else int(x) for x in k): int(v) for k, v in out.items()}
                if len(got) != len(out):
                    res.violations.append(dict(sig=dict(stream="add_row_margin", what="duplicate-rows"), case=case, observed=str(out.index.tolist())[:300], expected="distinct rows", what="add_row_margin lists a row twice"))
                    continue
        except Exception as e:  # noqa: BLE001
            res.violations.append(dict(sig=dict(stream="add_row_margin", what="raised", exc=type(e).__name__), case=case, observed=repr(e)[:200], expected=str(model)[:200], what="add_row_margin raised"))
            continue
        if got != model:
            # the model is proved to carry the aggregate of the rows each key stands for: a difference is a wrong margin
            diff = {str(k): (got.get(k), model.get(k)) for k in set(got) | set(model) if got.get(k) != model.get(k)}
            res.violations.append(dict(sig=dict(stream="add_row_margin", what="differs-from-model", nlevels=n, subset=levels is not None), case=case, observed=str({k: v[0] for k, v in diff.items()})[:300],
                                       expected=str({k: v[1] for k, v in diff.items()})[:300], what="add_row_margin differs from the proved model (key -> aggregate of the rows the key stands for)"))


def all_label_stream(res, rng, tier, GroupBy):
    """A group that is itself labelled 'All': the margin row of that name cannot coexist with it.  Either the call is rejected,
    or the ordinary row keeps its value AND the total is reported under a different label - what must not happen is that the
    total silently replaces the group's own value (which is what happened before /repo's fix)."""
    from groupby_lib.groupby.core import crosstab
    for t in range(40 if tier == "quick" else 400):
        n = rng.randint(2, 8)
        nkeys = rng.choice([1, 1, 2, 3])
        labels = ["All", "b", "c"]
        cols = [[rng.choice(labels if j == hot else ["x", "y", "z"]) for _ in range(n)] for j, hot in zip(range(nkeys), [rng.randrange(nkeys)] * nkeys)]
        if not any("All" in c for c in cols):
            cols[0][0] = "All"
        vals = [float(rng.choice([1, 2, 4, 8, 16])) for _ in range(n)]
        agg = rng.choice(["sum", "count", "min", "max", "mean", "size"])
        how = rng.choice(["groupby", "groupby", "crosstab"]) if nkeys >= 2 else "groupby"
        case = dict(stream="all-label", keys=cols, values=vals, agg=agg, how=how)
        res.note_case(repr(case), True)
        res.count("stream", "all-label")
        keys = [np.array(c, dtype=object) for c in cols]
        try:
            if how == "crosstab":
                idx, colk = keys[:1], keys[1:]
                out = crosstab(idx[0], colk if len(colk) > 1 else colk[0], None if agg == "size" else np.array(vals), aggfunc=None if agg == "size" else agg, margins=True) if agg != "size" else crosstab(idx[0], colk if len(colk) > 1 else colk[0], margins=True)
            else:
                gb = GroupBy(keys if nkeys > 1 else keys[0])
                out = gb.size(margins=True) if agg == "size" else getattr(gb, agg)(np.array(vals), margins=True)
        except ValueError:
            continue          # rejected: fine
        except Exception as e:  # noqa: BLE001
            res.violations.append(dict(sig=dict(stream="all-label", what="raised", exc=type(e).__name__), case=case, observed=repr(e)[:200], expected="ValueError or a table that keeps the group labelled 'All'",
                                       what="margins with a group labelled 'All' raised something other than ValueError"))
            continue
        res.violations.append(dict(sig=dict(stream="all-label", what="accepted", how=how, nkeys=nkeys), case=case, observed=repr(out)[:300].replace("\n", " | "),
                                   expected="a rejection (the total and the group labelled 'All' cannot share one row)",
                                   what="margins were added although a group is labelled 'All': its row and the total collide"))


def run(res, tier="quick", seed=0, widen=False):
    from groupby_lib import GroupBy
    rng = random.Random(seed * 41 + 14 + (1 if widen else 0))
    res.rule = ("margins: seeded datasets (1-10 rows, 1-3 keys with sparse label combinations and null keys, values with nulls, masks) x sum/count/size/min/max/mean x "
                "margins=True or every subset of levels, compared row by row with the exact aggregate of the rows each ordinary / 'All' row summarises; "
                "crosstab: 1-2 row keys x 1-2 column keys x six aggregations x margins False/True/'row'/'column' x masks, every cell / margin / corner against the exact "
                "aggregate, absent combinations null; margins also over datetime64 / timedelta64 values above 2^53 and mixed float + temporal frames; add_row_margin itself vs the extracted model (1-4 levels, every level subset); groups labelled 'All' must be refused; non-trivial = >= 2 keys or a mask (margins), every crosstab; distinct = canonical case")
    margins_stream(res, rng, tier, GroupBy)
    crosstab_stream(res, rng, tier)
    add_row_margin_stream(res, rng, tier)
    all_label_stream(res, rng, tier, GroupBy)


def replay(payload):
    return False, "replay: re-run ./bin/check C14 (deterministic for a given VERIF_SEED); stored case: " + str(payload.get("case"))
