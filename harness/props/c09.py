"""C09 — rolling operations are per-group sliding-window reductions."""
from __future__ import annotations

import itertools
import os
import random
from fractions import Fraction

import numpy as np
import pandas as pd

from ..common import to_frac, Driver, log
from ..rowops import decode_vals, impl_rolling, roll_requests

BIG = 2**60
ALPHA = {
    "f8": [None, 1, 2, -3, Fraction(1, 2), 4], "i8": [1, 2, -3, 7, 0],
    "M8": [None, 10, 20, BIG + 1, BIG + 3, 5], "m8": [None, 10, -20, BIG + 3, BIG + 7, 5],
}


def run(res, tier="quick", seed=0, widen=False):
    from groupby_lib.groupby import numba as nbf
    from groupby_lib import GroupBy

    rng = random.Random(seed * 131 + 9 + (1 if widen else 0))
    drv = Driver()
    maxlen = 6 if tier == "quick" else 8
    per = 3 if tier == "quick" else 6
    maxw = 3 if tier == "quick" else 4
    res.rule = ("kernel level: all code sequences of length <= %d over {-1,0,1} (sampled at the top lengths in quick) x %d seeded (kind, dtype, values, window<=%d, "
                "min_periods, mask) draws; kinds sum/mean/min/max/shift/diff; dtypes f8, i8 (down-cast), datetime64/timedelta64 incl. NaT and values above 2^60; "
                "plus a deep stream of long (3-14 rows) mostly-single-group series with ties, ~30%% nulls, window 1..6 and every min_periods; API level: GroupBy.rolling_*/shift/diff in both layouts; a magnitude stream (outliers 1e16, 2^60, 1e8+0.1, +-inf, 1e308 through windows 1..4, two groups, nulls, masks) against the exact rational window sum within the proved error bound; thorough adds windows 32767/32768/40000; non-trivial = >= 2 groups or null key/value or mask"
                % (maxlen, per, maxw))
    cases = []
    for L in range(0, maxlen + 1):
        for codes in itertools.product([-1, 0, 1], repeat=L):
            if tier == "quick" and L >= maxlen - 1 and rng.random() < 0.7:
                continue
            for _ in range(per):
                dt = rng.choice(["f8", "f8", "i8", "M8", "m8"])
                kind = rng.choice(["sum", "mean", "min", "max", "shift", "diff"])
                if dt in ("M8", "m8") and kind in ("sum", "mean"):
                    kind = rng.choice(["min", "max", "shift", "diff"])
                vals = [rng.choice(ALPHA[dt]) for _ in range(L)]
                window = rng.randint(1, maxw)
                mp = None if rng.random() < 0.4 else rng.randint(1, window)
                if kind in ("shift", "diff"):
                    mp = None
                mask = None if rng.random() < 0.55 else [rng.random() < 0.65 for _ in range(L)]
                cases.append((kind, dt, codes, vals, 2, window, mp, mask))
    # deep single-series stream: the theorems give group independence, so window logic is explored on
    # long series of (mostly) one group with many nulls, ties and every (window, min_periods)
    n_deep = 6000 if tier == "quick" else 60000
    for _ in range(n_deep):
        L = rng.randint(3, 14)
        codes = tuple(0 if rng.random() < 0.85 else rng.choice([-1, 1]) for _ in range(L))
        dt = rng.choice(["f8", "f8", "f8", "M8", "m8", "i8"])
        kind = rng.choice(["sum", "mean", "min", "min", "max", "max", "shift", "diff"])
        if dt in ("M8", "m8") and kind in ("sum", "mean"):
            kind = rng.choice(["min", "max", "shift", "diff"])
        small = {"f8": [None, None, 1, 2, 3, 2, 1], "i8": [1, 2, 3, 2], "M8": [None, None, 10, 20, 30, 20], "m8": [None, None, 10, 20, 30, 20]}[dt]
        vals = [rng.choice(small) for _ in range(L)]
        window = rng.randint(1, 6)
        mp = None if rng.random() < 0.35 else rng.randint(1, window)
        if kind in ("shift", "diff"):
            mp = None
        mask = None if rng.random() < 0.75 else [rng.random() < 0.75 for _ in range(L)]
        cases.append((kind, dt, codes, vals, 2, window, mp, mask))
    reqs = []
    for c in cases:
        m, s, dom = roll_requests(*c)
        reqs += [m, s]
    resp = drv.ask(reqs)
    for ci, c in enumerate(cases):
        kind, dt, codes, vals, ng, window, mp, mask = c
        dom = "i" if dt in ("M8", "m8") else "f"
        model = decode_vals(resp[2 * ci], dom)
        spec = decode_vals(resp[2 * ci + 1], dom)
        if dom == "f":   # a mean is one correctly rounded division of exact operands
            model = [None if v is None else Fraction(float(v)) for v in model]
            spec = [None if v is None else Fraction(float(v)) for v in spec]
        impl = impl_rolling(nbf, kind, dt, codes, vals, ng, window, mp, mask)
        nontrivial = len({k for k in codes if k >= 0}) >= 2 or any(k < 0 for k in codes) or any(v is None for v in vals) or mask is not None
        res.note_case(repr(c), nontrivial)
        res.count("kind", kind); res.count("dtype", dt); res.count("len", len(codes)); res.count("window", window)
        res.count("min_periods", mp); res.count("mask", "none" if mask is None else "bool")
        case = dict(level="kernel", kind=kind, dtype=dt, codes=list(codes), values=[None if v is None else str(v) for v in vals],
                    window=window, min_periods=mp, mask=mask)
        if ci % 1301 == 0:
            res.sample(case)
        sig = dict(level="kernel", kind=kind, dtype=dt)
        if impl[0] != "ok":
            res.violations.append(dict(sig={**sig, "what": "raised"}, case=case, observed=str(impl), expected=str(spec), what=f"rolling_{kind} raised"))
            continue
        if impl[1] != model:
            res.model_mismatches.append(dict(case=case, impl=str(impl[1]), model=str(model)))
        if impl[1] != spec:
            res.violations.append(dict(sig={**sig, "what": "wrong-window"}, case=case, observed=str(impl[1]), expected=str(spec),
                                       what=f"rolling_{kind} differs from the per-group sliding-window definition"))
        if len(codes) and dt in ("M8", "m8"):
            k = np.dtype(impl[2]).kind
            want = "m" if (kind == "diff" or dt == "m8") else "M"
            if k != want:
                res.violations.append(dict(sig={**sig, "what": "dtype"}, case=case, observed=impl[2], expected=want, what="temporal dtype not kept"))

    # ---- time unit of temporal diff / shift
    for unit in ["s", "ms", "us", "ns"]:
        v = np.array([10, 25, 70, 100], dtype="int64").view(f"M8[{unit}]")
        out = nbf.rolling_diff(np.zeros(4, dtype="int64"), v, 1, 1)
        exp = np.array([-(2**63), 15, 45, 30], dtype="int64").view(f"m8[{unit}]")
        res.note_case("unit-" + unit, True)
        if str(out.dtype) != str(exp.dtype) or not (out.view("int64") == exp.view("int64")).all():
            res.violations.append(dict(sig=dict(level="kernel", kind="diff", what="time-unit"), case=dict(unit=unit), observed=str(out), expected=str(exp),
                                       what="diff of temporal values is not in the input's time unit"))

    # ---- API level, both layouts
    n_api = 120 if tier == "quick" else 1200
    for t in range(n_api):
        L = rng.randint(1, 10)
        keys = [rng.choice(["b", "a", None]) for _ in range(L)]
        order = ["a", "b"]
        codes = [-1 if k is None else order.index(k) for k in keys]
        vals = [rng.choice([None, 1.0, 2.5, -3.0, 4.0]) for _ in range(L)]
        kind = rng.choice(["sum", "mean", "min", "max"])
        window = rng.randint(1, 3)
        mp = rng.randint(1, window)
        by_groups = rng.random() < 0.4
        idx_labels = list(range(10, 10 + L))
        rng.shuffle(idx_labels)
        ser = pd.Series([np.nan if v is None else v for v in vals], index=idx_labels, name="v")
        gb = GroupBy(pd.Series(np.array(keys, dtype=object), index=idx_labels))
        fvals = [None if v is None else Fraction(v) for v in vals]
        amask = None if rng.random() < 0.6 else [rng.random() < 0.7 for _ in range(L)]
        m, s, dom = roll_requests(kind, "f8", codes, fvals, 2, window, mp, amask)
        spec = [None if v is None else Fraction(float(v)) for v in decode_vals(drv.ask([s])[0], dom)]
        # the grouping may have served other (masked) calls before
        warm = rng.choice([None, None, "rolling_masked", "rolling_masked", "shift_masked", "cumsum_masked", "groups"])
        wmask = [rng.random() < 0.5 for _ in range(L)]
        case = dict(level="api", kind=kind, keys=keys, values=vals, window=window, min_periods=mp, index=idx_labels, index_by_groups=by_groups, mask=amask,
                    warmed_with=warm, warm_mask=wmask if warm else None)
        res.note_case(repr(case), True)
        res.count("api_layout", "group-sorted" if by_groups else "input-order")
        if t % 41 == 0:
            res.sample(case)
        try:
            if warm is not None:
                try:
                    wm = np.array(wmask, dtype=bool)
                    if warm == "rolling_masked":
                        gb.rolling_sum(ser, window=2, min_periods=1, mask=wm)
                    elif warm == "shift_masked":
                        gb.shift(ser, 1, mask=wm)
                    elif warm == "cumsum_masked":
                        gb.cumsum(ser, mask=wm)
                    else:
                        gb.groups
                except Exception:  # noqa: BLE001
                    pass
            out = getattr(gb, "rolling_" + kind)(ser, window=window, min_periods=mp, index_by_groups=by_groups,
                                                 mask=None if amask is None else np.array(amask, dtype=bool))
        except Exception as e:  # noqa: BLE001
            res.violations.append(dict(sig=dict(level="api", layout=by_groups, what="raised", no_group_rows=all(k is None for k in keys), exc=type(e).__name__), case=case, observed=repr(e)[:300], expected=str(spec),
                                       what="GroupBy.rolling_* raised"))
            continue
        got = [None if pd.isna(x) else to_frac(x) for x in out.tolist()]
        if by_groups:
            # the group-sorted layout lists the SELECTED rows only (a mask is equivalent to filtering first, C05)
            exp_rows = [(order[g], idx_labels[i], spec[i]) for g in range(2) for i in range(L) if codes[i] == g and (amask is None or amask[i])]
            exp_rows = [r for r in exp_rows]
            got_rows = [(ix[0], ix[1], v) for ix, v in zip(out.index.tolist(), got)]
            ok = got_rows == exp_rows
            exp_show = exp_rows
        else:
            ok = got == spec and list(out.index) == idx_labels
            exp_show = spec
        if not ok:
            res.violations.append(dict(sig=dict(level="api", kind=kind, layout=by_groups, what="wrong-window"), case=case, observed=str(list(zip(out.index.tolist(), got))),
                                       expected=str(exp_show), what="GroupBy.rolling_* differs from the sliding-window definition"))

    # ---- magnitudes: a large value that has left the window must leave no trace in the sums that follow
    # (running sums updated by add / subtract keep the rounding error of everything that ever passed through)
    U = Fraction(1, 2**53)
    OUT = [1e16, -1e16, 1e8 + 0.1, float(2**60), 3e12 + 0.25, -7e15, float("inf"), float("-inf"), 1e308, 1e308, -1e308]
    DBL_MAX = Fraction(1.7976931348623157e308)
    SMALL = [1.0, 2.5, -3.0, 0.5, 0.1, 0.7, 4.0]
    for t in range(200 if tier == "quick" else 2000):
        L = rng.randint(3, 16)
        codes = [rng.choice([0, 0, 0, 1, 1, -1]) for _ in range(L)]
        vals = [None if rng.random() < 0.1 else (rng.choice(OUT) if rng.random() < 0.2 else rng.choice(SMALL)) for _ in range(L)]
        kind = rng.choice(["sum", "mean"])
        window = rng.randint(1, 4)
        mp = rng.randint(1, window)
        amask = None if rng.random() < 0.7 else [rng.random() < 0.7 for _ in range(L)]
        case = dict(level="api", stream="magnitudes", kind=kind, codes=codes, values=vals, window=window, min_periods=mp, mask=amask)
        res.note_case(repr(case), True)
        res.count("stream", "magnitudes")
        if t % 67 == 0:
            res.sample(case)
        keys = np.array([np.nan if c < 0 else float(c) for c in codes])
        arr = np.array([np.nan if v is None else v for v in vals])
        try:
            out = getattr(GroupBy(keys), "rolling_" + kind)(arr, window=window, min_periods=mp, mask=None if amask is None else np.array(amask, dtype=bool))
        except Exception as e:  # noqa: BLE001
            res.violations.append(dict(sig=dict(level="api", stream="magnitudes", what="raised", exc=type(e).__name__), case=case, observed=repr(e)[:300], expected="a result", what="GroupBy.rolling_* raised"))
            continue
        got = out.tolist()
        bad = []
        hist = {0: [], 1: []}
        for i in range(L):
            g = codes[i]
            if g < 0 or (amask is not None and not amask[i]):
                continue
            hist[g].append(vals[i])
            raw = [v for v in hist[g][-window:] if v is not None]
            gi = got[i]
            infs = {v for v in raw if v in (float("inf"), float("-inf"))}
            if infs and len(raw) < mp:
                if not (gi is None or gi != gi):
                    bad.append((i, gi, None))
                continue
            if infs:
                # an infinite value in the window: the sum is that infinity (NaN if both signs are present) - and finite
                # again as soon as it has left
                ok = (gi != gi) if len(infs) == 2 else (gi == next(iter(infs)))
                if not ok:
                    bad.append((i, gi, "nan" if len(infs) == 2 else next(iter(infs))))
                continue
            win = [Fraction(v) for v in raw]
            if sum((abs(x) for x in win), Fraction(0)) > DBL_MAX:
                continue          # the window's own sum overflows binary64 (in some order of summation): nothing is claimed for this row
            if len(win) < mp:
                want = None
            else:
                want = sum(win, Fraction(0)) / (len(win) if kind == "mean" else 1)
            if want is None or gi is None or gi != gi:
                if (want is None) != (gi is None or gi != gi):
                    bad.append((i, gi, want))
                continue
            # the proved bound (C09_reported_sum_error, C09_history_enters_at_second_order): |reported - W| <= u |W| +
            # (1 + u) n^2 u^2 H q^n with n <= 2 * rows seen (additions and removals) and H <= the sum of |x| over the history;
            # stated here with a little head-room (|W| <= sum of |x| over the window; the division of a mean rounds once more)
            absw = sum((abs(x) for x in win), Fraction(0)) / (len(win) if kind == "mean" else 1)
            past = sum((abs(Fraction(v)) for v in hist[g] if v is not None and abs(v) != float("inf")), Fraction(0))
            n_upd = 2 * len(hist[g])
            tol = 4 * U * absw + 2 * n_upd * n_upd * U * U * past
            if gi in (float("inf"), float("-inf")) or abs(Fraction(gi) - want) > tol:
                bad.append((i, gi, float(want)))
        if bad:
            res.violations.append(dict(sig=dict(level="api", stream="magnitudes", kind=kind, what="drift"), case=case, observed=str([(b[0], b[1]) for b in bad]), expected=str([(b[0], b[2]) for b in bad]),
                                       what="rolling " + kind + " differs from the sum of the values in the window by more than the rounding of that sum (a value that left the window still shows)"))

    float_model_stream(res, rng, tier)

    # ---- very long windows
    for window in ([32767, 32768, 40000] if tier == "thorough" else [32768]):
        n = window + 50
        v = np.arange(n, dtype="float64")
        out = nbf.rolling_sum(np.zeros(n, dtype="int64"), v, 1, window)
        exp_last = float(sum(range(n - window, n)))
        res.note_case(f"long-window-{window}", True)
        if np.isnan(out[window - 1:]).any() or out[-1] != exp_last or not np.isnan(out[: window - 1]).all():
            res.violations.append(dict(sig=dict(level="kernel", kind="sum", what="long-window"), case=dict(window=window), observed=str(out[-3:]),
                                       expected=str(exp_last), what="rolling sum wrong for a very long window"))
        out = nbf.rolling_max(np.zeros(n, dtype="int64"), v[::-1].copy(), 1, window)
        if np.isnan(out[window - 1:]).any() or out[-1] != float(window - 1):
            res.violations.append(dict(sig=dict(level="kernel", kind="max", what="long-window"), case=dict(window=window), observed=str(out[-3:]),
                                       expected=str(window - 1), what="rolling max wrong for a very long window"))


def float_model_stream(res, rng, tier):
    """Tie A in IEEE-754: the real kernel (one group) against Model/RollingFloat.v, a bit-exact transcription in Coq's primitive
    floats, evaluated by vm_compute in one coqc call.  Values of every magnitude, infinities, overflow, NaN; the outputs of the
    kernel are handed to Coq as hexadecimal literals and compared there bit for bit (NaN = NaN)."""
    import subprocess
    from groupby_lib.groupby import numba as nbf
    from ..common import VERIF, COQ
    alpha = [float("nan"), 1.0, 2.5, -3.0, 0.5, 0.1, 0.7, 4.0, 1e16, -1e16, 1e8 + 0.1, float(2**60), 3e12 + 0.25, -7e15, float("inf"), float("-inf"), 1e308, -1e308, 5e-324, -0.0, 1e-300]

    def lit(x):
        if x != x:
            return "nan"
        if x == float("inf"):
            return "infinity"
        if x == float("-inf"):
            return "neg_infinity"
        h = float(x).hex()
        return "(" + h + ")" if h.startswith("-") else h
    cases = []
    for t in range(400 if tier == "quick" else 4000):
        L = rng.randint(1, 16)
        big = rng.random() < 0.6
        vals = [rng.choice(alpha if big else alpha[:8]) for _ in range(L)]
        window = rng.randint(1, 5)
        mp = rng.randint(1, window)
        mean = rng.random() < 0.5
        arr = np.array(vals, dtype="float64")
        f = nbf.rolling_mean if mean else nbf.rolling_sum
        out = np.asarray(f(np.zeros(L, dtype="int64"), arr, 1, window, min_periods=mp), dtype="float64")
        cases.append((window, mp, mean, vals, out.tolist()))
        res.note_case(repr(("float-model", window, mp, mean, [lit(v) for v in vals])), True)
        res.count("stream", "float-model")
    d = VERIF / ".cache" / "rfloat" / str(os.getpid())
    d.mkdir(parents=True, exist_ok=True)
    body = ";\n  ".join(f"({w}%nat, {mp}%Z, {'true' if mean else 'false'}, [{'; '.join(lit(v) for v in vals)}], [{'; '.join(lit(v) for v in outs)}])" for w, mp, mean, vals, outs in cases)
    (d / "cases.v").write_text("From Coq Require Import List ZArith PrimFloat.\nFrom GL Require Import Model.RollingFloat.\nImport ListNotations.\nOpen Scope float_scope.\n"
                               "Definition cases : list (nat * Z * bool * list float * list float) :=\n  [" + body + "].\nEval vm_compute in map check_case cases.\n")
    p = subprocess.run(["timeout", "600", "coqc", "-Q", str(COQ / "theories"), "GL", "cases.v"], cwd=d, stdout=subprocess.PIPE, stderr=subprocess.STDOUT)
    txt = p.stdout.decode(errors="replace")
    flags = [w for w in txt.replace("[", " ").replace("]", " ").replace(";", " ").split() if w in ("true", "false")]
    for f in d.iterdir():
        f.unlink()
    d.rmdir()
    if p.returncode != 0 or len(flags) != len(cases):
        res.model_mismatches.append(dict(case="float-model", impl="-", model=f"coqc failed or printed {len(flags)} results for {len(cases)} cases: " + txt[-400:]))
        return
    for (w, mp, mean, vals, outs), ok in zip(cases, flags):
        if ok != "true":
            res.model_mismatches.append(dict(case=dict(stream="float-model", window=w, min_periods=mp, mean=mean, values=[lit(v) for v in vals]), impl=str([lit(v) for v in outs]),
                                             model="Model/RollingFloat.rolling_float gives another bit pattern"))


def replay(payload):
    return False, "replay: re-run ./bin/check C09 (deterministic for a given VERIF_SEED); stored case: " + str(payload.get("case"))
