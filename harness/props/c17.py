"""C17 — the pandas-style facade agrees with the core engine and with pandas.

Random Series / DataFrames with non-default, duplicated, non-monotonic indexes; keys given as
column names, arrays, Series, index levels (by name / by number) and mixtures; every facade
method with and without [] column selection.  Three-way comparison:
   facade  obj.groupby_fast(by / level)[cols].<method>()
   core    GroupBy(resolved keys).<method>(selected value columns)
   pandas  obj.groupby(by / level)[cols].<method>()   for the null-skipping operations pandas also
           offers (sum, mean, min, max, count, size, std, var, first, last; cumulative and rolling
           sums / extremes / counts at rows holding a non-null value)
plus: key columns are not aggregated, cumcount numbers rows from 0 whatever the values, iteration
yields every group label once with exactly that group's rows whatever the index."""
from __future__ import annotations

import random

import numpy as np
import pandas as pd

from .. import api

AGGS = ["sum", "mean", "min", "max", "count", "size", "std", "var", "first", "last", "median"]
CUMS = ["cumsum", "cummax", "cummin", "cumcount"]
ROLL = ["sum", "mean", "min", "max"]
OTHER = ["head", "tail", "nth", "ema", "agg_sum_masked", "apply_range", "iter"]


def gen_frame(rng):
    n = rng.randint(2, 10)
    idx_kind = rng.choice(["range", "dup", "perm", "str", "multi"])
    if idx_kind == "range":
        index = pd.RangeIndex(n)
    elif idx_kind == "dup":
        index = pd.Index([rng.randint(0, 3) for _ in range(n)], name="ix")
    elif idx_kind == "perm":
        p = list(range(n)); rng.shuffle(p); index = pd.Index(p, name="ix")
    elif idx_kind == "str":
        index = pd.Index([rng.choice("xyz") for _ in range(n)], name="ix")
    else:
        index = pd.MultiIndex.from_arrays([[rng.choice("pq") for _ in range(n)], [rng.randint(0, 2) for _ in range(n)]], names=["l0", "l1"])
    df = pd.DataFrame({
        "k": [rng.choice(["a", "b", "c"]) for _ in range(n)],
        "j": [rng.choice([1, 2]) for _ in range(n)],
        "x": [rng.choice([1.0, 2.0, -3.0, 0.5, np.nan]) for _ in range(n)],
        "y": [float(rng.choice([0, 1, 4, 7])) for _ in range(n)],
    }, index=index)
    return df, idx_kind


def gen_by(rng, df, idx_kind):
    """-> (description, by, level, pandas-by, key arrays for the core, key column names)"""
    opts = ["col", "cols", "array", "series", "mixed"]
    if idx_kind in ("dup", "perm", "str"):
        opts += ["level_name", "level_num"]
    if idx_kind == "multi":
        opts += ["level_name", "level_num", "levels"]
    kind = rng.choice(opts)
    if kind == "col":
        return kind, "k", None, "k", [df["k"]], ["k"]
    if kind == "cols":
        return kind, ["k", "j"], None, ["k", "j"], [df["k"], df["j"]], ["k", "j"]
    if kind == "array":
        arr = df["k"].to_numpy()
        return kind, arr, None, arr, [arr], []
    if kind == "series":
        ser = (df["y"] // 2).rename("y")           # a Series named like a column, but not that column
        return kind, ser, None, ser, [ser], []
    if kind == "mixed":
        ser = (df["x"] > 1).rename("x")
        return kind, ["k", ser], None, ["k", ser], [df["k"], ser], ["k"]
    if kind == "level_name":
        name = "l1" if idx_kind == "multi" else "ix"
        return kind, None, name, None, [df.index.get_level_values(name)], []
    if kind == "level_num":
        return kind, None, 0, None, [df.index.get_level_values(0)], []
    return kind, None, ["l0", "l1"], None, [df.index.get_level_values("l0"), df.index.get_level_values("l1")], []


def same_frame(a, b, rtol=1e-9):
    """compare two pandas results by position-independent content: index labels + values"""
    if isinstance(a, pd.Series) != isinstance(b, pd.Series):
        return False, f"types {type(a).__name__} vs {type(b).__name__}"
    if isinstance(a, pd.Series):
        a, b = a.to_frame("v"), b.to_frame("v")
    if list(map(str, a.columns)) != list(map(str, b.columns)):
        return False, f"columns {list(a.columns)} vs {list(b.columns)}"
    if len(a) != len(b) or [tuple(x) if isinstance(x, tuple) else (x,) for x in a.index.tolist()] != [tuple(x) if isinstance(x, tuple) else (x,) for x in b.index.tolist()]:
        return False, f"index {a.index.tolist()} vs {b.index.tolist()}"
    av, bv = a.to_numpy(dtype=float), b.to_numpy(dtype=float)
    if not np.allclose(av, bv, rtol=rtol, atol=1e-12, equal_nan=True):
        return False, f"values {av.tolist()} vs {bv.tolist()}"
    return True, ""


def run_case(rng, GroupBy, viol_out, res):
    df, idx_kind = gen_frame(rng)
    bykind, by, level, pby, core_keys, key_cols = gen_by(rng, df, idx_kind)
    sel = rng.choice([None, None, "x", ["x", "y"], ["y"]])
    if sel is None and "k" not in key_cols:
        sel = ["x", "y"]          # the string column k is a value column then: keep the comparison to numeric columns
    family = rng.choice(["agg", "agg", "cum", "roll", "other"])
    method = rng.choice({"agg": AGGS, "cum": CUMS, "roll": ROLL, "other": OTHER}[family])
    use_series = rng.random() < 0.25 and bykind in ("array", "level_name", "level_num", "levels")
    warm = rng.choice([None, None, "sum", "mean", "cumsum", "max"])
    nested = rng.random() < 0.3
    case = dict(warmed_with=warm, nested_selection=nested, index_kind=idx_kind, by=bykind, selection=sel, family=family, method=method, series_object=use_series, frame=df.reset_index().to_dict("list"))
    res.note_case(repr(case), True)
    res.count("by", bykind); res.count("family", family); res.count("method", method); res.count("index_kind", idx_kind); res.count("selection", str(sel)); res.count("warmed_with", str(warm))
    if len(res.samples) < 6 and rng.random() < 0.003:
        res.sample(case)
    sig = dict(by=bykind, family=family, method=method, selection=str(sel), index_kind=idx_kind, warmed=bool(warm))

    def fail(what, obs, exp, **extra):
        viol_out.append(dict(sig={**sig, "what": what, **extra}, case=case, observed=str(obs)[:400], expected=str(exp)[:400], what=f"{method} via groupby_fast({bykind}){'' if sel is None else '[' + str(sel) + ']'}: {what}"))

    obj = df["x"] if use_series else df
    value_cols = [c for c in df.columns if c not in key_cols]
    if use_series:
        chosen = None
    elif sel is None:
        chosen = value_cols
    elif isinstance(sel, str):
        chosen = sel
    else:
        chosen = sel
    try:
        fgb = obj.groupby_fast(by=by, level=level) if by is not None or level is not None else None
        # the facade object may have been used before the selection is taken (column selection must be honoured
        # whatever the object's history): warm it with a value-based call, optionally through a nested selection
        if warm:
            try:
                getattr(fgb, warm)()
            except Exception:  # noqa: BLE001
                pass
        if not use_series and sel is not None:
            if nested and isinstance(sel, list) and all(c in ("x", "y") for c in sel) and all(c in df.columns and c not in key_cols for c in ("x", "y")):
                mid = fgb[["x", "y"]]
                try:
                    mid.mean()
                except Exception:  # noqa: BLE001
                    pass
                fgb = mid[sel]
            else:
                fgb = fgb[sel]
        pgb = obj.groupby(pby if pby is not None else None, level=level, sort=True) if True else None
        if not use_series and sel is not None:
            pgb = pgb[sel]
    except Exception as e:  # noqa: BLE001
        fail("construction-raised", repr(e)[:200], "a groupby object")
        return
    core = GroupBy(core_keys if len(core_keys) > 1 else core_keys[0])
    values = obj if use_series else (df[chosen] if not isinstance(chosen, list) else df[chosen])
    try:
        if family == "agg":
            f = fgb.size() if method == "size" else getattr(fgb, method)()
            c = core.size() if method == "size" else getattr(core, method)(values)
            ok, why = same_frame(f, c)
            if not ok:
                fail("facade-vs-core", why, "equal")
            if method != "median" and method != "size":
                p = getattr(pgb, method)()
                ok, why = same_frame(f, p, rtol=1e-6)
                if not ok:
                    fail("facade-vs-pandas", why, "equal")
            if method == "size":
                p = pgb.size()
                if f.to_dict() != p.to_dict():
                    fail("facade-vs-pandas", f.to_dict(), p.to_dict())
        elif family == "cum":
            f = getattr(fgb, method)()
            c = core.cumcount() if method == "cumcount" else getattr(core, method)(values)
            if method == "cumcount":
                p = pgb.cumcount()
                if f.tolist() != p.tolist() or list(f.index) != list(p.index):
                    fail("facade-vs-pandas", f.tolist(), p.tolist())
            else:
                ok, why = same_frame(f, c)
                if not ok:
                    fail("facade-vs-core", why, "equal")
                p = getattr(pgb, method)()
                # pandas keeps NaN at rows whose value is null: compare where the value is non-null
                fv = f.to_frame("v") if isinstance(f, pd.Series) else f
                pv = p.to_frame("v") if isinstance(p, pd.Series) else p
                vv = values.to_frame("v") if isinstance(values, pd.Series) else values
                if list(map(str, fv.columns)) != list(map(str, pv.columns)):
                    fail("facade-vs-pandas", list(fv.columns), list(pv.columns))
                else:
                    m = vv.notna().to_numpy()
                    if not np.allclose(np.where(m, fv.to_numpy(dtype=float), 0), np.where(m, pv.to_numpy(dtype=float), 0), equal_nan=True):
                        fail("facade-vs-pandas", fv.to_numpy().tolist(), pv.to_numpy().tolist())
        elif family == "roll":
            # every way of giving the parameters: window 1-3, min_periods omitted (= the window, as in pandas), 0, 1 .. window
            w = rng.choice([1, 2, 2, 3])
            mp = rng.choice([None, 0, 1, w])
            # C17 asks the facade for what the core returns: where the core itself refuses a parameter combination (the mean of an
            # empty window with min_periods=0 divides by zero in the kernel - outside C09's min_periods 1..window, see DESIGN) the
            # facade must refuse it the same way, not return something of its own
            try:
                c = getattr(core, "rolling_" + method)(values, w, min_periods=w if mp is None else mp)
                core_exc = None
            except Exception as e:  # noqa: BLE001
                c, core_exc = None, type(e).__name__
            if core_exc is not None:
                try:
                    getattr(fgb.rolling(w) if mp is None else fgb.rolling(w, min_periods=mp), method)()
                    fail("facade-vs-core", "the facade returned a result", f"the core raises {core_exc} (window={w}, min_periods={mp})")
                except Exception as e:  # noqa: BLE001
                    if type(e).__name__ != core_exc:
                        fail("facade-vs-core", f"the facade raises {type(e).__name__}", f"the core raises {core_exc} (window={w}, min_periods={mp})")
                res.count("core_refuses", f"rolling_{method} min_periods={mp}: {core_exc}")
            else:
                f = getattr(fgb.rolling(w) if mp is None else fgb.rolling(w, min_periods=mp), method)()
                ok, why = same_frame(f, c)
                if not ok:
                    fail("facade-vs-core", why, f"equal (window={w}, min_periods={mp})")
        else:
            if method in ("head", "tail"):
                n = rng.choice([0, 1, 1, 2, 3])
                f = getattr(fgb, method)(n)
                c = getattr(core, method)(values, n)
                ok, why = same_frame(f, c)
                if not ok:
                    fail("facade-vs-core", why, f"equal (n={n})")
            elif method == "nth":
                n = rng.choice([0, 0, 1, -1, 2, -2])
                f = fgb.nth(n)
                c = core.nth(values, n)
                ok, why = same_frame(f, c)
                if not ok:
                    fail("facade-vs-core", why, f"equal (n={n})")
            elif method == "ema":
                kw = rng.choice([dict(alpha=0.5), dict(alpha=0.25), dict(alpha=1.0), dict(halflife=2.0)])
                f = fgb.ema(**kw)
                c = core.ema(values, **kw)
                ok, why = same_frame(f, c)
                if not ok:
                    fail("facade-vs-core", why, f"equal ({kw})")
            elif method == "agg_sum_masked":
                m = np.array([rng.random() < 0.6 for _ in range(len(df))], dtype=bool)
                f = fgb.agg("sum", mask=m)
                c = core.sum(values, mask=m)
                ok, why = same_frame(f, c)
                if not ok:
                    fail("facade-vs-core", why, "equal (the mask must be honoured)")
            elif method == "apply_range":
                fn = lambda a: np.nanmax(a) - np.nanmin(a)      # noqa: E731
                f = fgb.apply(fn)
                c = core.apply(values, fn)
                ok, why = same_frame(f, c)
                if not ok:
                    fail("facade-vs-core", why, "equal")
            elif method == "iter":
                # exactly that group's rows: compared by row position (a helper column of row numbers) with pandas' groups
                rows = pd.Series(np.arange(len(df)), index=df.index)
                karr = [pd.Series(np.asarray(k), index=df.index) for k in core_keys]
                pfull = rows.groupby(karr if len(karr) > 1 else karr[0], sort=True)
                want_rows = {k: sorted(v.tolist()) for k, v in pfull}
                seen = []
                pos_of = {id(df): None}
                for key, sub in fgb:
                    seen.append(key)
                    # recover the row positions of the yielded rows through the y column joined with the index labels
                    got_idx = list(sub.index)
                    k2 = key if len(core_keys) > 1 or not isinstance(key, tuple) else key[0]
                    exp_pos = want_rows.get(k2)
                    if exp_pos is None:
                        fail("iteration-labels", key, list(want_rows))
                        break
                    exp_idx = [df.index[i] for i in exp_pos]
                    yv = sub["y"].tolist() if isinstance(sub, pd.DataFrame) and "y" in sub.columns else sub.tolist()
                    ev = (df["y"] if (isinstance(sub, pd.DataFrame) and "y" in sub.columns) else obj if use_series else df[chosen if isinstance(chosen, str) else chosen[0]]).iloc[exp_pos].tolist()
                    if got_idx != exp_idx or not np.allclose(np.array(yv, dtype=float), np.array(ev, dtype=float), equal_nan=True):
                        fail("iteration-rows", (got_idx, yv), (exp_idx, ev))
                        break
                if len(seen) != len(set(seen)) or len(seen) != len(want_rows):
                    fail("iteration-labels", seen, list(want_rows))
    except Exception as e:  # noqa: BLE001
        fail("raised", repr(e)[:300], "a result", exc=type(e).__name__)


def run(res, tier="quick", seed=0, widen=False):
    from groupby_lib import GroupBy
    from groupby_lib.groupby.monkey_patch import install_groupby_fast
    install_groupby_fast()
    rng = random.Random(seed * 59 + 17 + (1 if widen else 0))
    n_cases = 2500 if tier == "quick" else 25000
    res.rule = ("seeded random frames (2-10 rows; index default / duplicated / permuted / string / two-level) x keys as column name(s), array, Series named like another column, "
                "mixture, index level by name / number / several levels x optional [] selection x 11 aggregations, 4 cumulative, 4 rolling, head/tail/nth/ema/agg(mask)/apply/iteration; "
                "facade vs core on the selected value columns, and vs pandas for the operations pandas offers; non-trivial: every case; distinct = canonical case")
    res.extra["programs"] = n_cases
    for _ in range(n_cases):
        run_case(rng, GroupBy, res.violations, res)


def replay(payload):
    return False, "replay: re-run ./bin/check C17 (deterministic for a given VERIF_SEED); stored case: " + str(payload.get("case"))[:600]
