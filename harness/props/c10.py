"""C10 — EMA is the normalised exponentially weighted mean, per group.

Streams (all against the extracted code-model of emas.py and the extracted closed-form
specification ema_spec / ema_timed_spec, exact rational arithmetic):
  1 ema_grouped(alpha) on short interleavings, nulls, masks, four value dtypes — exact regime
    (dyadic alpha and values: every kernel operation is exact, the output is one correctly
    rounded division, compared for equality)
  2 ema_grouped(halflife, times) with gaps that are whole halflives (incl. pre-1970 times and
    s/ms/us units) — 1e-9 relative (np.exp rounding)
  3 ungrouped ema(alpha) vs the model of _ema_adjusted; ungrouped timed vs grouped timed
  4 grouped EMA of one group == ungrouped EMA from the first valid observation on
  5 halflife h == alpha 1-2^(-1/h) for real h, from both entry points
  6 GroupBy.ema in both layouts, keys with nulls
  7 edge cases: alpha = 1 with invalid rows, very long runs of invalid rows, very long time gaps"""
from __future__ import annotations

import itertools
import math
import random
from fractions import Fraction

import numpy as np
import pandas as pd

from ..common import Driver, log, sx
from ..rowops import atoms, bmask_sx, decode_vals, np_mask

HL = 1_000_000_000  # one halflife = 1 s in ns
VALS = [None, None, Fraction(1), Fraction(2), Fraction(-3), Fraction(1, 2), Fraction(5, 4), Fraction(8)]
ALPHAS = [Fraction(1, 2), Fraction(1, 4), Fraction(3, 4), Fraction(1)]


def to_float_list(fr):
    return [None if v is None else float(v) for v in fr]


def close(a, b, rel):
    if a is None or b is None:
        return a is None and b is None
    if rel == 0:
        return a == b
    return abs(a - b) <= rel * max(1.0, abs(a), abs(b))


def canon_out(out):
    return [None if (x is None or (isinstance(x, float) and math.isnan(x))) else float(x) for x in np.asarray(out, dtype="float64").tolist()]


def mk_vals(vals, dtype):
    if "float" in dtype:
        return np.array([np.nan if v is None else float(v) for v in vals], dtype=dtype)
    return np.array([int(v) for v in vals], dtype=dtype)


def float_model_stream(res, rng, tier):
    """Tie A in IEEE-754 for the grouped plain EMA: the real kernel _ema_grouped against Model/EmaFloat.v, a bit-exact
    transcription in Coq's primitive floats (several groups, null keys, masks, every magnitude), evaluated by vm_compute."""
    import os
    import subprocess
    from groupby_lib.emas import _ema_grouped
    from ..common import VERIF, COQ
    alpha_vals = [float("nan"), 1.0, 2.5, -3.0, 0.5, 0.1, 0.7, 4.0, 1e16, -1e16, 1e8 + 0.1, float(2**60), -7e15, float("inf"), float("-inf"), 1e308, -1e308, 5e-324, -0.0, 1e-300]
    alphas = [0.5, 0.1, 0.9, 1.0, 1.0 / 3.0, 1e-3, 0.25, 0.999999]

    def lit(x):
        if x != x:
            return "nan"
        if x == float("inf"):
            return "infinity"
        if x == float("-inf"):
            return "neg_infinity"
        h = float(x).hex()
        return "(" + h + ")" if h.startswith("-") else h
    cases = []
    for t in range(400 if tier == "quick" else 4000):
        L = rng.randint(1, 16)
        ng = rng.randint(1, 3)
        keys = [rng.choice([-1] + list(range(ng))) if rng.random() < 0.15 else rng.randrange(ng) for _ in range(L)]
        vals = [rng.choice(alpha_vals if rng.random() < 0.6 else alpha_vals[:8]) for _ in range(L)]
        alpha = rng.choice(alphas)
        mask = None if rng.random() < 0.6 else [rng.random() < 0.7 for _ in range(L)]
        out = _ema_grouped(np.array(keys, dtype="int64"), np.array(vals, dtype="float64"), float(alpha), ng, None if mask is None else np.array(mask, dtype=bool))
        cases.append((alpha, ng, keys, vals, mask, np.asarray(out, dtype="float64").tolist()))
        res.note_case(repr(("ema-float-model", alpha, ng, keys, [lit(v) for v in vals], mask)), True)
        res.count("stream", "float-model")
    d = VERIF / ".cache" / "efloat" / str(os.getpid())
    d.mkdir(parents=True, exist_ok=True)
    body = ";\n  ".join(
        f"({lit(alpha)}, {ng}%nat, [{'; '.join('((' + str(k) + ')%Z, ' + lit(v) + ', ' + ('true' if (mask is None or mask[i]) else 'false') + ')' for i, (k, v) in enumerate(zip(keys, vals)))}], "
        f"[{'; '.join(lit(v) for v in outs)}])" for alpha, ng, keys, vals, mask, outs in cases)
    (d / "cases.v").write_text("From Coq Require Import List ZArith PrimFloat.\nFrom GL Require Import Model.EmaFloat.\nImport ListNotations.\nOpen Scope float_scope.\n"
                               "Definition cases : list (float * nat * list (Z * float * bool) * list float) :=\n  [" + body + "].\nEval vm_compute in map check_ema cases.\n")
    p = subprocess.run(["timeout", "600", "coqc", "-Q", str(COQ / "theories"), "GL", "cases.v"], cwd=d, stdout=subprocess.PIPE, stderr=subprocess.STDOUT)
    txt = p.stdout.decode(errors="replace")
    flags = [w for w in txt.replace("[", " ").replace("]", " ").replace(";", " ").split() if w in ("true", "false")]
    for f in d.iterdir():
        f.unlink()
    d.rmdir()
    if p.returncode != 0 or len(flags) != len(cases):
        res.model_mismatches.append(dict(case="ema-float-model", impl="-", model=f"coqc failed or printed {len(flags)} results for {len(cases)} cases: " + txt[-400:]))
        return
    for (alpha, ng, keys, vals, mask, outs), ok in zip(cases, flags):
        if ok != "true":
            res.model_mismatches.append(dict(case=dict(stream="ema-float-model", alpha=alpha, ngroups=ng, keys=keys, values=[lit(v) for v in vals], mask=mask), impl=str([lit(v) for v in outs]),
                                             model="Model/EmaFloat.ema_grouped_float gives another bit pattern"))


def run(res, tier="quick", seed=0, widen=False):
    from groupby_lib import GroupBy, ema, ema_grouped

    rng = random.Random(seed * 17 + 10 + (1 if widen else 0))
    drv = Driver()
    float_model_stream(res, random.Random(seed * 17 + 1010 + (1 if widen else 0)), tier)
    res.rule = ("streams 1-7 of the module docstring: grouped plain EMA on all code sequences of length <= 5 over {-1,0,1} plus seeded longer ones (exact regime, "
                "alpha in {1/2,1/4,3/4,1}, dyadic values, nulls, masks, float64/float32/int64/int32); grouped timed EMA with whole-halflife gaps (starting at, shortly before and up to 4e9 halflives on either side of the epoch, s/ms/us/ns); "
                "ungrouped vs model; grouped(single group) vs ungrouped; halflife vs alpha for real halflives; GroupBy.ema both layouts; alpha=1 and 1200-row invalid runs; the real grouped kernel bit for bit against the primitive-float model Model/EmaFloat.v (magnitudes 5e-324..1e308, infinities, NaN, masks, null keys); "
                "non-trivial = >= 2 groups or an invalid row; distinct = canonical case")
    viol = res.violations

    # ------------------------------------------------ 1 grouped, plain
    cases = []
    maxlen = 5 if tier == "quick" else 7
    for L in range(1, maxlen + 1):
        for codes in itertools.product([-1, 0, 1], repeat=L):
            if tier == "quick" and L == maxlen and rng.random() < 0.5:
                continue
            cases.append(list(codes))
    for _ in range(1500 if tier == "quick" else 15000):
        L = rng.randint(4, 12)
        cases.append([0 if rng.random() < 0.6 else rng.choice([-1, 1, 2]) for _ in range(L)])
    plain = []
    for codes in cases:
        L = len(codes)
        dtype = rng.choice(["float64", "float64", "float32", "int64", "int32"])
        vals = [rng.choice(VALS) for _ in range(L)] if "float" in dtype else [Fraction(rng.choice([1, 2, -3, 8])) for _ in range(L)]
        alpha = rng.choice(ALPHAS)
        mask = None if rng.random() < 0.6 else [rng.random() < 0.7 for _ in range(L)]
        plain.append((codes, vals, alpha, mask, dtype))
    reqs = []
    for codes, vals, alpha, mask, dtype in plain:
        reqs.append(sx(["ema", codes, atoms(vals, "f"), alpha, 3, bmask_sx(mask)]))
        reqs.append(sx(["ema_spec", codes, atoms(vals, "f"), alpha, bmask_sx(mask)]))
    resp = drv.ask(reqs)
    for ci, (codes, vals, alpha, mask, dtype) in enumerate(plain):
        model = to_float_list(decode_vals(resp[2 * ci], "f"))
        spec = to_float_list(decode_vals(resp[2 * ci + 1], "f"))
        case = dict(stream="grouped-plain", codes=codes, values=[None if v is None else str(v) for v in vals], alpha=str(alpha), mask=mask, dtype=dtype)
        nontrivial = len({k for k in codes if k >= 0}) >= 2 or any(v is None for v in vals) or mask is not None or any(k < 0 for k in codes)
        res.note_case(repr(case), nontrivial)
        res.count("stream", "grouped-plain"); res.count("dtype", dtype); res.count("alpha", alpha); res.count("len", len(codes))
        if ci % 997 == 0:
            res.sample(case)
        try:
            out = canon_out(ema_grouped(np.array(codes, dtype="int64"), 3, mk_vals(vals, dtype), alpha=float(alpha), mask=np_mask(mask)))
        except Exception as e:  # noqa: BLE001
            viol.append(dict(sig=dict(stream="grouped-plain", what="raised"), case=case, observed=repr(e)[:200], expected=str(spec), what="ema_grouped raised"))
            continue
        if out != model:
            res.model_mismatches.append(dict(case=case, impl=str(out), model=str(model)))
        if out != spec:
            viol.append(dict(sig=dict(stream="grouped-plain", what="closed-form"), case=case, observed=str(out), expected=str(spec),
                             what="ema_grouped differs from the normalised exponentially weighted mean"))

    # ------------------------------------------------ 2 grouped, timed
    timed = []
    for _ in range(1200 if tier == "quick" else 12000):
        L = rng.randint(1, 10)
        codes = [rng.choice([0, 0, 1, -1]) for _ in range(L)]
        vals = [rng.choice(VALS) for _ in range(L)]
        # starting instants incl. the epoch itself, shortly before it, and thousands to billions of halflives away from it on
        # either side (a decay measured from the epoch instead of from the group's previous row overflows only out there)
        t0 = rng.choice([0, 5, -20, -3, 1_600_000_000, -2000, -1_000_000_000, 4_000_000_000])
        t, steps = t0, []
        for _ in range(L):
            t += rng.choice([0, 1, 1, 2, 3, 7])
            steps.append(t)
        unit = rng.choice(["ns", "ns", "us", "ms", "s"])
        mask = None if rng.random() < 0.6 else [rng.random() < 0.7 for _ in range(L)]
        timed.append((codes, vals, steps, unit, mask))
    reqs = []
    for codes, vals, steps, unit, mask in timed:
        reqs.append(sx(["ema_timed", codes, atoms(vals, "f"), steps, 1, 2, bmask_sx(mask)]))
        reqs.append(sx(["ema_timed_spec", codes, atoms(vals, "f"), steps, 1, bmask_sx(mask)]))
    resp = drv.ask(reqs)
    per_unit = {"ns": 10**9, "us": 10**6, "ms": 10**3, "s": 1}
    for ci, (codes, vals, steps, unit, mask) in enumerate(timed):
        model = to_float_list(decode_vals(resp[2 * ci], "f"))
        spec = to_float_list(decode_vals(resp[2 * ci + 1], "f"))
        case = dict(stream="grouped-timed", codes=codes, values=[None if v is None else str(v) for v in vals], times_s=steps, unit=unit, mask=mask)
        res.note_case(repr(case), True)
        res.count("stream", "grouped-timed"); res.count("unit", unit); res.count("pre1970", steps[0] < 0)
        if ci % 499 == 0:
            res.sample(case)
        times = (np.array(steps, dtype="int64") * per_unit[unit]).view(f"datetime64[{unit}]")
        try:
            out = canon_out(ema_grouped(np.array(codes, dtype="int64"), 2, mk_vals(vals, "float64"), halflife="1s", times=times, mask=np_mask(mask)))
        except Exception as e:  # noqa: BLE001
            viol.append(dict(sig=dict(stream="grouped-timed", what="raised"), case=case, observed=repr(e)[:200], expected=str(spec), what="timed ema_grouped raised"))
            continue
        if not all(close(a, b, 1e-9) for a, b in zip(out, model)):
            res.model_mismatches.append(dict(case=case, impl=str(out), model=str(model)))
        # K1-style caveat does not apply: the timed kernel ages by elapsed time, so masked rows do not matter
        if not all(close(a, b, 1e-9) for a, b in zip(out, spec)):
            viol.append(dict(sig=dict(stream="grouped-timed", what="closed-form"), case=case, observed=str(out), expected=str(spec),
                             what="timed ema_grouped differs from the time-weighted mean"))
        # 4b: single group vs ungrouped timed, from the first valid observation on
        if all(k == 0 for k in codes) and mask is None:
            try:
                ung = canon_out(ema(mk_vals(vals, "float64"), halflife="1s", times=times))
                fv = next((i for i, v in enumerate(vals) if v is not None), None)
                if fv is not None and not all(close(a, b, 1e-9) for a, b in zip(out[fv:], ung[fv:])):
                    viol.append(dict(sig=dict(stream="grouped-vs-ungrouped", timed=True, what="differs"), case=case, observed=str(ung), expected=str(out),
                                     what="ungrouped timed ema differs from the grouped EMA of the same single series after the first valid observation"))
            except Exception as e:  # noqa: BLE001
                viol.append(dict(sig=dict(stream="grouped-vs-ungrouped", timed=True, what="raised"), case=case, observed=repr(e)[:200], expected=str(out), what="ungrouped timed ema raised"))

    # ------------------------------------------------ 2b real-valued halflives x timestamp resolutions
    # "one half to the elapsed time divided by the halflife": the same instants expressed in s / ms / us / ns (or
    # as datetime64 of those resolutions) with a halflife that is NOT a whole number of ticks of that resolution
    per_unit = {"ns": 10**9, "us": 10**6, "ms": 10**3, "s": 1}
    HLS = ["1500ms", "2.5s", "750ms", "1s", "90s", "0.3s", "1min", "1234567us"]
    for t_ in range(500 if tier == "quick" else 5000):
        L = rng.randint(1, 9)
        codes = [rng.choice([0, 0, 1]) for _ in range(L)]
        vals = [rng.choice(VALS) for _ in range(L)]
        steps, t = [], rng.choice([0, 5, 1_600_000_000])
        for _ in range(L):
            t += rng.choice([0, 1, 1, 2, 3, 7, 61])
            steps.append(t)
        unit = rng.choice(["s", "s", "ms", "us", "ns"])
        hl = rng.choice(HLS)
        h_s = pd.Timedelta(hl).total_seconds()
        mask = None if rng.random() < 0.7 else [rng.random() < 0.7 for _ in range(L)]
        case = dict(stream="timed-real-halflife", codes=codes, values=[None if v is None else str(v) for v in vals], times_s=steps, unit=unit, halflife=hl, mask=mask)
        res.note_case(repr(case), True)
        res.count("stream", "timed-real-halflife"); res.count("unit", unit); res.count("halflife", hl)
        want = []
        for i in range(L):
            valid = [j for j in range(i + 1) if codes[j] == codes[i] and vals[j] is not None and (mask is None or mask[j])]
            if not valid:
                want.append(None)
                continue
            tl = steps[valid[-1]]
            ws = [0.5 ** ((tl - steps[j]) / h_s) for j in valid]
            want.append(sum(w * float(vals[j]) for w, j in zip(ws, valid)) / sum(ws))
        times = (np.array(steps, dtype="int64") * per_unit[unit]).view(f"datetime64[{unit}]")
        try:
            out = canon_out(ema_grouped(np.array(codes, dtype="int64"), 2, mk_vals(vals, "float64"), halflife=hl, times=times, mask=np_mask(mask)))
        except Exception as e:  # noqa: BLE001
            viol.append(dict(sig=dict(stream="timed-real-halflife", what="raised", unit=unit), case=case, observed=repr(e)[:200], expected=str(want), what="timed ema_grouped raised"))
            continue
        if not all(close(a, b, 1e-9) for a, b in zip(out, want)):
            viol.append(dict(sig=dict(stream="timed-real-halflife", what="closed-form", unit=unit, halflife=hl), case=case, observed=str(out), expected=str(want),
                             what="timed ema_grouped differs from the time-weighted mean with weights (1/2)^(dt/halflife)"))
        if all(k == 0 for k in codes) and mask is None:
            try:
                ung = canon_out(ema(mk_vals(vals, "float64"), halflife=hl, times=times))
                fv = next((i for i, v in enumerate(vals) if v is not None), None)
                if fv is not None and not all(close(a, b, 1e-9) for a, b in zip(want[fv:], ung[fv:])):
                    viol.append(dict(sig=dict(stream="timed-real-halflife", what="ungrouped", unit=unit, halflife=hl), case=case, observed=str(ung), expected=str(want),
                                     what="ungrouped timed ema differs from the time-weighted mean"))
            except Exception as e:  # noqa: BLE001
                viol.append(dict(sig=dict(stream="timed-real-halflife", what="ungrouped-raised"), case=case, observed=repr(e)[:200], expected=str(want), what="ungrouped timed ema raised"))

    # ------------------------------------------------ 3/4 ungrouped vs model, grouped(single) vs ungrouped
    ung_cases = []
    for _ in range(800 if tier == "quick" else 8000):
        L = rng.randint(1, 12)
        vals = [rng.choice(VALS) for _ in range(L)]
        ung_cases.append((vals, rng.choice(ALPHAS)))
    resp = drv.ask([sx(["ema_adjusted", atoms(v, "f"), a]) for v, a in ung_cases])
    for ci, (vals, alpha) in enumerate(ung_cases):
        model = to_float_list(decode_vals(resp[ci], "f"))
        case = dict(stream="ungrouped", values=[None if v is None else str(v) for v in vals], alpha=str(alpha))
        res.note_case(repr(case), any(v is None for v in vals))
        res.count("stream", "ungrouped")
        out = canon_out(ema(mk_vals(vals, "float64"), alpha=float(alpha)))
        if out != model:
            res.model_mismatches.append(dict(case=case, impl=str(out), model=str(model)))
        g = canon_out(ema_grouped(np.zeros(len(vals), dtype="int64"), 1, mk_vals(vals, "float64"), alpha=float(alpha)))
        fv = next((i for i, v in enumerate(vals) if v is not None), None)
        if fv is not None and g[fv:] != out[fv:]:
            viol.append(dict(sig=dict(stream="grouped-vs-ungrouped", timed=False, what="differs"), case=case, observed=str(g), expected=str(out),
                             what="grouped EMA of a single group differs from the ungrouped EMA after the first valid observation"))
        if fv is not None and any(x is not None for x in g[:fv]):
            viol.append(dict(sig=dict(stream="grouped-vs-ungrouped", timed=False, what="not-null-before-first"), case=case, observed=str(g), expected="null before the first valid row",
                             what="grouped output is not null before the group's first valid observation"))

    # ------------------------------------------------ 5 halflife vs alpha
    for t in range(200 if tier == "quick" else 2000):
        L = rng.randint(1, 12)
        vals = [rng.choice([None, 1.0, 2.5, -3.0, 0.3, 7.7]) for _ in range(L)]
        h = rng.choice([0.5, 1, 2, 2.5, 7.3, 0.1, 30])
        a = 1 - 2 ** (-1 / h)
        arr = np.array([np.nan if v is None else v for v in vals])
        codes = np.array([rng.choice([0, 1]) for _ in range(L)], dtype="int64")
        case = dict(stream="halflife-vs-alpha", values=vals, halflife=h, codes=codes.tolist())
        res.note_case(repr(case), True)
        res.count("stream", "halflife-vs-alpha"); res.count("halflife", h)
        try:
            r1, r2 = canon_out(ema(arr, halflife=h)), canon_out(ema(arr, alpha=a))
            g1, g2 = canon_out(ema_grouped(codes, 2, arr, halflife=h)), canon_out(ema_grouped(codes, 2, arr, alpha=a))
        except Exception as e:  # noqa: BLE001
            viol.append(dict(sig=dict(stream="halflife-vs-alpha", what="raised"), case=case, observed=repr(e)[:200], expected="a result", what="halflife entry raised"))
            continue
        if not all(close(x, y, 1e-12) for x, y in zip(r1, r2)) or not all(close(x, y, 1e-12) for x, y in zip(g1, g2)):
            viol.append(dict(sig=dict(stream="halflife-vs-alpha", what="differs"), case=case, observed=str((r1, g1)), expected=str((r2, g2)),
                             what="halflife=h differs from alpha=1-2^(-1/h)"))

    # ------------------------------------------------ 6 GroupBy.ema, both layouts
    api_cases = []
    for _ in range(150 if tier == "quick" else 1500):
        L = rng.randint(1, 10)
        keys = [rng.choice(["b", "a", "c", None]) for _ in range(L)]
        vals = [rng.choice(VALS) for _ in range(L)]
        api_cases.append((keys, vals, rng.choice(ALPHAS), rng.random() < 0.4))
    reqs = []
    for keys, vals, alpha, by_groups in api_cases:
        order = sorted({k for k in keys if k is not None})
        codes = [-1 if k is None else order.index(k) for k in keys]
        reqs.append(sx(["ema_spec", codes, atoms(vals, "f"), alpha, "none"]))
    resp = drv.ask(reqs)
    for ci, (keys, vals, alpha, by_groups) in enumerate(api_cases):
        spec = to_float_list(decode_vals(resp[ci], "f"))
        order = sorted({k for k in keys if k is not None})
        codes = [-1 if k is None else order.index(k) for k in keys]
        case = dict(stream="api", keys=keys, values=[None if v is None else str(v) for v in vals], alpha=str(alpha), index_by_groups=by_groups)
        res.note_case(repr(case), True)
        res.count("stream", "api"); res.count("index_by_groups", by_groups)
        if ci % 71 == 0:
            res.sample(case)
        idx = list(range(20, 20 + len(keys)))
        try:
            gb = GroupBy(pd.Series(np.array(keys, dtype=object), index=idx))
            out = gb.ema(pd.Series(mk_vals(vals, "float64"), index=idx), alpha=float(alpha), index_by_groups=by_groups)
        except Exception as e:  # noqa: BLE001
            if not order:
                continue      # no group at all: degenerate, decided by C09/C16's apply stream
            viol.append(dict(sig=dict(stream="api", what="raised", layout=by_groups), case=case, observed=repr(e)[:200], expected=str(spec), what="GroupBy.ema raised"))
            continue
        if by_groups:
            exp = [(order[g], idx[i], spec[i]) for g in range(len(order)) for i in range(len(keys)) if codes[i] == g]
            got = [(lab[0], lab[1], None if pd.isna(x) else float(x)) for lab, x in zip(out.index.tolist(), out.tolist())]
        else:
            exp = list(zip(idx, spec))
            got = [(lab, None if pd.isna(x) else float(x)) for lab, x in zip(out.index.tolist(), out.tolist())]
        if got != exp:
            viol.append(dict(sig=dict(stream="api", what="closed-form", layout=by_groups), case=case, observed=str(got), expected=str(exp), what="GroupBy.ema differs from the per-group weighted mean"))

    # ------------------------------------------------ 7 edge cases
    # long runs of invalid rows: the closed form is evaluated directly (exact fractions) — the weighted mean of the
    # two leading observations is repeated through the run, then the last row adds one observation
    def closed_form(valid, beta):       # valid: list of (group-row number, value); weights beta^(rows elapsed)
        m = valid[-1][0]
        num = sum(Fraction(beta) ** (m - j) * x for j, x in valid)
        den = sum(Fraction(beta) ** (m - j) for j, x in valid)
        return float(num / den)
    for L0 in ([1100, 1300] if tier == "quick" else [1100, 1300, 2500, 5000]):
        for alpha in (Fraction(1, 2), Fraction(1, 4)):
            beta = 1 - alpha
            vals = [Fraction(3), Fraction(5)] + [None] * L0 + [Fraction(1)]
            n = len(vals)
            e0 = closed_form([(0, Fraction(3))], beta)
            e1 = closed_form([(0, Fraction(3)), (1, Fraction(5))], beta)
            e2 = closed_form([(0, Fraction(3)), (1, Fraction(5)), (n - 1, Fraction(1))], beta)
            spec = [e0] + [e1] * (L0 + 1) + [e2]
            case = dict(stream="edge-long-invalid-run", rows=n, alpha=str(alpha))
            res.note_case(repr(case), True)
            res.count("stream", "edge")
            out = canon_out(ema_grouped(np.zeros(n, dtype="int64"), 1, mk_vals(vals, "float64"), alpha=float(alpha)))
            bad = [i for i in range(n) if not close(out[i], spec[i], 1e-9)]
            if bad:
                viol.append(dict(sig=dict(stream="edge", what="long-invalid-run"), case=case, observed=str([(i, out[i]) for i in bad[:5]]), expected=str([(i, spec[i]) for i in bad[:5]]),
                                 what=f"after a long run of invalid rows the output is not the previous output (first bad rows {bad[:5]})"))
    # alpha = 1 with invalid rows: the previous output is repeated
    for vals, mask in [([Fraction(2), None, Fraction(4), None, None], None), ([Fraction(2), Fraction(9), Fraction(4)], [True, False, True])]:
        n = len(vals)
        out = canon_out(ema_grouped(np.zeros(n, dtype="int64"), 1, mk_vals(vals, "float64"), alpha=1.0, mask=np_mask(mask)))
        exp, last = [], None
        for i, v in enumerate(vals):
            if v is not None and (mask is None or mask[i]):
                last = float(v)
            exp.append(last)
        case = dict(stream="edge-alpha-one", values=[None if v is None else str(v) for v in vals], mask=mask)
        res.note_case(repr(case), True)
        if out != exp:
            viol.append(dict(sig=dict(stream="edge", what="alpha-one"), case=case, observed=str(out), expected=str(exp), what="alpha=1: an invalid row does not repeat the previous output"))
    # long time gaps (whole halflives): exact closed form with weights 2^-(elapsed halflives)
    for gap in [2000, 100000]:
        vals = [Fraction(3), Fraction(5), None, Fraction(1)]
        steps = [0, 1, 1 + gap, 2 + gap]
        half = Fraction(1, 2)
        e0 = 3.0
        e1 = float((half * 3 + 5) / (half + 1))
        w0, w1 = half ** (2 + gap), half ** (1 + gap)
        e3 = float((w0 * 3 + w1 * 5 + 1) / (w0 + w1 + 1))
        spec = [e0, e1, e1, e3]
        times = (np.array(steps, dtype="int64") * 10**9).view("datetime64[ns]")
        out = canon_out(ema_grouped(np.zeros(4, dtype="int64"), 1, mk_vals(vals, "float64"), halflife="1s", times=times))
        case = dict(stream="edge-long-gap", gap_halflives=gap)
        res.note_case(repr(case), True)
        if not all(close(a, b, 1e-9) for a, b in zip(out, spec)):
            viol.append(dict(sig=dict(stream="edge", what="long-gap"), case=case, observed=str(out), expected=str(spec), what="after a very long time gap the output is wrong"))


def replay(payload):
    return False, "replay: re-run ./bin/check C10 (deterministic for a given VERIF_SEED); stored case: " + str(payload.get("case"))
