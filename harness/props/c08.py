"""C08 — cumulative operations are per-group prefix reductions."""
from __future__ import annotations

import itertools
import random

import numpy as np
import pandas as pd

from ..common import to_frac, Driver, log
from ..kernels import DT
from ..rowops import cum_requests, decode_vals, impl_cumulative

BIG = 2**53 + 1
ALPHA = {
    "f8": [None, 1, 2, -3, 0.5], "i8": [1, 2, -3, BIG, 7], "b": [0, 1],
    "M8": [None, 10, 20, 2**60 + 1, 5], "m8": [None, 10, -20, 2**60 + 3, 5], "f4": [None, 1, 2, -3, 0.5], "i4": [1, 2, -3, 7],
}
EXPECT_KIND = {"f8": "f", "f4": "f", "i8": "i", "i4": "i", "b": "b", "M8": "M", "m8": "m"}


def run(res, tier="quick", seed=0, widen=False):
    from groupby_lib.groupby import numba as nbf
    from groupby_lib import GroupBy
    from fractions import Fraction

    rng = random.Random(seed * 101 + 8 + (1 if widen else 0))
    drv = Driver()
    maxlen = 5 if tier == "quick" else 7
    per = 8 if tier == "quick" else 16
    res.rule = ("kernel level: all code sequences of length <= %d over {-1,0,1} (sampled at the top length in quick) x %d seeded value assignments over a "
                "5-symbol alphabet containing null and values above 2^53 x {cumsum,cummin,cummax,cumcount} x skip_na x {no mask, boolean mask} x "
                "dtype classes f8,i8,bool,datetime64,timedelta64 (+f4,i4); API level: GroupBy.cum* on pandas Series with null keys; "
                "float64 cumsum / cummin / cummax (0-16 rows, 1-4 groups, null codes, masks, skip_na on/off, magnitudes 5e-324..1e308, infinities, NaN, -0.0) BIT FOR BIT against "
                "the primitive-float model Model/CumFloat.v evaluated inside Coq; non-trivial = >= 2 groups or a null key/value or a mask" % (maxlen, per))
    cases = []
    for L in range(0, maxlen + 1):
        for codes in itertools.product([-1, 0, 1], repeat=L):
            if tier == "quick" and L >= maxlen - 1 and rng.random() < 0.5:
                continue
            for _ in range(per):
                dt = rng.choice(["f8", "f8", "i8", "b", "M8", "m8", "f4", "i4"])
                op = rng.choice(["sum", "min", "max", "count"])
                if op == "sum" and dt == "M8":
                    op = "max"
                vals = [rng.choice(ALPHA[dt]) for _ in range(L)]
                if dt in ("f4",):
                    vals = [None if v is None else Fraction(v) for v in vals]
                if dt == "f8":
                    vals = [None if v is None else Fraction(v) for v in vals]
                mask = None if rng.random() < 0.5 else [rng.random() < 0.6 for _ in range(L)]
                skip_na = rng.random() < 0.7 if op != "count" else True
                cases.append((op, dt, codes, vals, 2, mask, skip_na))
    # sentinel collisions: running sums of plain int64 values that pass exactly through the int64 minimum (the
    # in-band null marker of timestamps): plain integers hold no nulls, the sum must simply go on
    NEG = -2**62
    for _ in range(150 if tier == "quick" else 1500):
        L = rng.randint(3, 6)
        codes = tuple(rng.choice([0, 0, 1, -1]) for _ in range(L))
        vals = [rng.choice([1, 5, 3, 7]) for _ in range(L)]
        i, j = rng.sample(range(L), 2)
        vals[i] = vals[j] = NEG
        mask = None if rng.random() < 0.6 else [rng.random() < 0.8 for _ in range(L)]
        cases.append(("sum", "i8", codes, vals, 2, mask, rng.random() < 0.5))
    reqs, idx = [], []
    for c in cases:
        m, s, dom = cum_requests(*c)
        idx.append((len(reqs), None if s is None else len(reqs) + 1, dom))
        reqs.append(m)
        if s is not None:
            reqs.append(s)
    resp = drv.ask(reqs)
    for ci, c in enumerate(cases):
        op, dt, codes, vals, ng, mask, skip_na = c
        mi, si, dom = idx[ci]
        model = decode_vals(resp[mi], dom)
        spec = decode_vals(resp[si], dom) if si is not None else None
        if op == "count":
            model = [v - 1 for v in model]
            spec = [v - 1 for v in spec]
        impl = impl_cumulative(nbf, op, dt, codes, vals, ng, mask, skip_na)
        nontrivial = len({k for k in codes if k >= 0}) >= 2 or any(k < 0 for k in codes) or any(v is None for v in vals) or mask is not None
        res.note_case(repr(c), nontrivial)
        res.count("op", op); res.count("dtype", dt); res.count("len", len(codes)); res.count("skip_na", skip_na)
        res.count("mask", "none" if mask is None else "bool")
        case = dict(level="kernel", op=op, dtype=dt, codes=list(codes), values=[None if v is None else str(v) for v in vals], mask=mask, skip_na=skip_na)
        if ci % 1201 == 0:
            res.sample(case)
        sig = dict(level="kernel", op=op, dtype=dt, skip_na=skip_na)
        if impl[0] != "ok":
            res.violations.append(dict(sig={**sig, "what": "raised"}, case=case, observed=str(impl), expected=str(model), what=f"cum{op} raised"))
            continue
        if impl[1] != model:
            res.model_mismatches.append(dict(case=case, impl=str(impl[1]), model=str(model)))
        if spec is not None and impl[1] != spec:
            # masked rows before the group's first accepted row hold the fill value: property fixes selected rows only
            bad = [i for i in range(len(codes)) if impl[1][i] != spec[i] and (mask is None or mask[i] or codes[i] < 0)]
            if bad:
                res.violations.append(dict(sig={**sig, "what": "wrong-prefix"}, case=case, observed=str(impl[1]), expected=str(spec),
                                           what=f"cum{op} differs from the per-group prefix reduction at rows {bad}"))
        # exactness / dtype: integer and temporal inputs stay integer / temporal
        if op != "count" and len(codes) > 0:
            kind = np.dtype(impl[2]).kind
            want = EXPECT_KIND[dt]
            if op == "sum" and want == "b":
                want = "i"
            if kind != want:
                res.violations.append(dict(sig={**sig, "what": "dtype"}, case=case, observed=impl[2], expected=want,
                                           what=f"cum{op} of {dt} returned dtype {impl[2]}"))

    # ---- API level
    n_api = 150 if tier == "quick" else 1500
    for t in range(n_api):
        L = rng.randint(1, 10)
        keys = [rng.choice(["a", "b", None]) for _ in range(L)]
        codes = [-1 if k is None else ["a", "b"].index(k) for k in keys]
        vals = [rng.choice([None, 1.0, 2.5, -3.0]) for _ in range(L)]
        op = rng.choice(["sum", "min", "max"])
        mask = None if rng.random() < 0.5 else [rng.random() < 0.6 for _ in range(L)]
        idx_labels = [rng.randint(0, 5) for _ in range(L)]
        ser = pd.Series([np.nan if v is None else v for v in vals], index=idx_labels, name="v")
        gb = GroupBy(pd.Series(np.array(keys, dtype=object), index=idx_labels))
        fvals = [None if v is None else Fraction(v) for v in vals]
        m, s, dom = cum_requests(op, "f8", codes, fvals, 2, mask, True)
        spec = decode_vals(drv.ask([s])[0], dom)
        case = dict(level="api", op=op, keys=keys, values=vals, mask=mask, index=idx_labels)
        res.note_case(repr(case), True)
        res.count("api_op", op)
        if t % 53 == 0:
            res.sample(case)
        try:
            out = getattr(gb, "cum" + op)(ser, mask=None if mask is None else pd.Series(mask, index=idx_labels))
        except Exception as e:  # noqa: BLE001
            res.violations.append(dict(sig=dict(level="api", op=op, what="raised"), case=case, observed=repr(e)[:300], expected=str(spec), what="GroupBy.cum* raised"))
            continue
        got = [None if pd.isna(x) else to_frac(x) for x in out.tolist()]
        bad = [i for i in range(L) if got[i] != spec[i] and (mask is None or mask[i] or codes[i] < 0)]
        if bad or list(out.index) != idx_labels:
            res.violations.append(dict(sig=dict(level="api", op=op, what="wrong-prefix"), case=case, observed=str(got), expected=str(spec),
                                       what=f"GroupBy.cum{op} differs from the prefix reduction at rows {bad}"))
    float_model_stream(res, rng, tier, nbf)


def float_model_stream(res, rng, tier, nbf):
    """Tie A in IEEE-754 for the cumulative kernels on float64: numba.cumsum / cummin / cummax (skip_na on and off, with and
    without a boolean mask, null codes) against Model/CumFloat.v - a bit-exact transcription in Coq's primitive floats - evaluated
    by vm_compute: every output row, every magnitude, infinities, NaN, -0.0."""
    import os
    import subprocess
    import warnings
    from ..common import VERIF, COQ
    alpha = [float("nan"), 1.0, 2.5, -3.0, 0.5, 0.1, 0.7, 4.0, 0.3, 1e16, -1e16, 1e8 + 0.1, float(2**60), -7e15, 1e9 + 0.125, float("inf"), float("-inf"), 1e308, -1e308, 5e-324, -0.0, 0.0, 1e-300, 1e150]
    ops = ["sum", "min", "max"]

    def lit(x):
        x = float(x)
        if x != x:
            return "nan"
        if x == float("inf"):
            return "infinity"
        if x == float("-inf"):
            return "neg_infinity"
        h = x.hex()
        return "(" + h + ")" if h.startswith("-") else h
    cases = []
    for t in range(400 if tier == "quick" else 4000):
        L = rng.randint(0, 16)
        ng = rng.randint(1, 4)
        keys = [rng.choice(list(range(ng)) + [-1]) if rng.random() < 0.9 else rng.randrange(ng) for _ in range(L)]
        vals = [rng.choice(alpha if rng.random() < 0.6 else alpha[:9]) for _ in range(L)]
        o = rng.randrange(3)
        sk = rng.random() < 0.6
        mask = [rng.random() < 0.7 for _ in range(L)] if rng.random() < 0.4 and L > 0 else None
        case = dict(level="float-model", op=ops[o], skip_na=sk, keys=keys, values=[lit(v) for v in vals], mask=mask, ngroups=ng)
        with warnings.catch_warnings():
            warnings.simplefilter("ignore")
            try:
                out = getattr(nbf, "cum" + ops[o])(np.array(keys, dtype="int64"), np.array(vals, dtype="float64"), ng, None if mask is None else np.array(mask, dtype=bool), sk)
            except Exception as e:  # noqa: BLE001
                res.violations.append(dict(sig=dict(level="float-model", op=ops[o], what="raised"), case=case, observed=repr(e)[:200], expected="one output per row",
                                           what="numba.cum* raised on a well-formed float64 input"))
                continue
        cases.append((o, sk, keys, vals, mask, [float(x) for x in np.asarray(out).tolist()]))
        res.note_case(repr(("cum-float-model", o, sk, keys, [lit(v) for v in vals], mask)), True)
        res.count("stream", "cum-float-model")
    d = VERIF / ".cache" / "cfloat" / str(os.getpid())
    d.mkdir(parents=True, exist_ok=True)

    def row(c):
        o, sk, keys, vals, mask, out = c
        m = mask if mask is not None else [True] * len(keys)
        rows = "; ".join("((%d)%%Z, %s, %s)" % (k, lit(v), "true" if b else "false") for k, v, b in zip(keys, vals, m))
        return f"({o}%nat, {'true' if sk else 'false'}, [{rows}], [{'; '.join(lit(v) for v in out)}])"
    (d / "cases.v").write_text("From Coq Require Import List ZArith PrimFloat.\nFrom GL Require Import Model.CumFloat.\nImport ListNotations.\nOpen Scope float_scope.\n"
                               "Definition cases : list (nat * bool * list (Z * float * bool) * list float) :=\n  [" + ";\n  ".join(row(c) for c in cases) + "].\n"
                               "Eval vm_compute in map check_cum cases.\n")
    p = subprocess.run(["timeout", "900", "coqc", "-Q", str(COQ / "theories"), "GL", "cases.v"], cwd=d, stdout=subprocess.PIPE, stderr=subprocess.STDOUT)
    txt = p.stdout.decode(errors="replace")
    flags = [w for w in txt.replace("[", " ").replace("]", " ").replace(";", " ").split() if w in ("true", "false")]
    for f in d.iterdir():
        f.unlink()
    d.rmdir()
    if p.returncode != 0 or len(flags) != len(cases):
        res.model_mismatches.append(dict(case="cum-float-model", impl="-", model=f"coqc failed or printed {len(flags)} results for {len(cases)} cases: " + txt[-400:]))
        return
    for c, ok in zip(cases, flags):
        if ok != "true":
            o, sk, keys, vals, mask, out = c
            res.model_mismatches.append(dict(case=dict(level="float-model", op=ops[o], skip_na=sk, keys=keys, values=[lit(v) for v in vals], mask=mask),
                                             impl=str([lit(v) for v in out]), model="Model/CumFloat.cum_f gives another bit pattern in some row"))


def replay(payload):
    return False, "replay: re-run ./bin/check C08 (deterministic for a given VERIF_SEED); stored case: " + str(payload.get("case"))
