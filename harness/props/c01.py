"""C01 — group reductions equal the per-group definition (public GroupBy API).

Every case: logical key columns (1-3, nulls allowed), logical values, mask.  The
real GroupBy.<op>(values, mask=...) is compared with the extracted specification
spec_reduce evaluated on the logical group codes: value per label, the set of
labels reported (= labels with a selected row), their order, neutral results of
all-null groups.  The kernel-level impl-vs-model comparison is C04's; here the
model side is the specification only (the pandas glue is not modelled)."""
from __future__ import annotations

import random
from fractions import Fraction

import numpy as np
import pandas as pd

from ..common import Driver, log
from .. import api

OPS_BY_DT = {
    "f8": api.REDUCTIONS,
    "i8": api.REDUCTIONS,
    "b": ["size", "count", "sum", "min", "max", "first", "last"],
    "M8": ["size", "count", "min", "max", "first", "last"],
    "m8": ["size", "count", "min", "max", "first", "last", "sum"],
}
VALS = {
    "f8": [None, None, Fraction(1), Fraction(2), Fraction(-3), Fraction(1, 2), Fraction(5, 4)],
    "i8": [1, 2, -3, 7, 2**53 + 1],
    "b": [0, 1],
    "M8": [None, 10, 20, 2**60 + 1, 5],
    "m8": [None, 10, -20, 2**60 + 3, 5],
}


def gen_case(rng, tier):
    n = rng.randint(1, 9 if tier == "quick" else 14)
    nkeys = rng.choice([1, 1, 1, 2, 2, 3])
    nlab = rng.choice([2, 3, 4])
    null_rate = rng.choice([0, 0, 0.15, 0.3])
    keycols = [[None if rng.random() < null_rate else rng.randrange(nlab) for _ in range(n)] for _ in range(nkeys)]
    kinds = []
    for col in keycols:
        ks = [k for k in ["int", "float", "str", "cat", "dt", "dttz", "bool"] if api.kind_ok(col, k)]
        kinds.append(rng.choice(ks))
    dt = rng.choice(["f8", "f8", "f8", "i8", "b", "M8", "m8"])
    vals = [rng.choice(VALS[dt]) for _ in range(n)]
    scen = rng.random()
    codes, labels = api.logical_codes(keycols)
    if scen < 0.25 and labels and dt in ("f8", "M8", "m8"):
        # force an all-null group
        g = rng.randrange(len(labels))
        vals = [None if codes[i] == g else v for i, v in enumerate(vals)]
    mk = rng.choice(["none", "none", "bool", "bool", "slice", "idx", "allfalse", "groupout"])
    if mk == "none":
        mask = None
    elif mk == "bool":
        mask = ("b", [rng.random() < 0.6 for _ in range(n)])
    elif mk == "allfalse":
        mask = ("b", [False] * n)
    elif mk == "groupout":
        g = rng.randrange(len(labels)) if labels else 0
        mask = ("b", [codes[i] != g for i in range(n)])
    elif mk == "slice":
        mask = ("s", rng.choice([None, 0, 1, 2, -1, -3, -n - 1]), rng.choice([None, n, n - 1, -1, 2, n + 2]))
    else:
        k = rng.randint(0, n)
        r = rng.random()
        if r < 0.4:
            mask = ("i", sorted(rng.sample(range(n), k)))                     # strictly increasing
        elif r < 0.65:
            mask = ("i", sorted(rng.randrange(n) for _ in range(k)))          # non-decreasing WITH repeats: a row counts as often as it is named
        else:
            mask = ("i", [rng.randrange(-n, n) for _ in range(k)])            # any order, negatives, repeats
    op = rng.choice(OPS_BY_DT[dt])
    container = rng.choice(["numpy", "pandas", "pandas"])
    index = [rng.randint(0, 6) for _ in range(n)] if container == "pandas" else None
    # the execution strategy must not matter (C03): a third of the cases run chunk-factorized and / or multi-threaded
    strat = rng.choice([None, None, None, None, "chunked", "threads", "both"])
    if rng.random() < 0.12 and n >= 2:
        # multiplicity: a row named k times by a positional mask counts k times, under every strategy
        k = rng.randint(2, n + 2)
        mask = ("i", sorted(rng.randrange(n) for _ in range(k)))
        strat = rng.choice([None, "chunked", "chunked", "threads", "both"])
        op = rng.choice([o for o in OPS_BY_DT[dt] if o in ("size", "count", "sum", "mean")] or OPS_BY_DT[dt])
    return dict(keycols=keycols, kinds=kinds, dt=dt, vals=vals, mask=mask, op=op, container=container, index=index, strategy=strat)


def run_case(GroupBy, c, expected, observed, labels):
    """-> list of violation dicts (sig, what, observed, expected)"""
    n = len(c["vals"])
    idx = c["index"]
    keys = [api.make_key(col, kind, c["container"] if kind != "cat" else "pandas", index=idx, name=f"k{j}")
            for j, (col, kind) in enumerate(zip(c["keycols"], c["kinds"]))]
    if c["container"] == "numpy":
        keys = [k.to_numpy() if (isinstance(k, pd.Series) and kind != "cat") else (pd.Series(k.values) if kind == "cat" else k)
                for k, kind in zip(keys, c["kinds"])]
    values = api.make_values(c["vals"], c["dt"], c["container"], index=idx, name="v")
    mask = api.api_mask(c["mask"], index=idx, as_series=(c["container"] == "pandas"))
    op = c["op"]
    sig = dict(level="api", op=op, dtype=c["dt"], nkeys=len(keys), mask=("none" if c["mask"] is None else c["mask"][0]))
    st = c.get("strategy")
    sig["strategy"] = st or "plain"
    with api.strategy(chunk_threshold=4 if st in ("chunked", "both") else None, rows_per_thread=2 if st in ("threads", "both") else None):
        r = api.call(lambda: GroupBy(keys if len(keys) > 1 else keys[0]))
        if r[0] != "ok":
            return [dict(sig={**sig, "what": "constructor-raised", "exc": r[1]}, what="GroupBy(keys) raised: " + r[2], observed=r[2], expected="a grouping")]
        gb = r[1]
        if op == "size":
            r = api.call(lambda: gb.size(mask=mask))
        else:
            r = api.call(lambda: getattr(gb, op)(values, mask=mask))
    want = {labels[g]: expected[g] for g in range(len(labels)) if observed[g]}
    # a sum of ticks / integers that does not fit in 64 bits has no representable value: nothing is claimed about it
    # (a positional mask that names a row 2^60 + 3 eight times gets there)
    unrepresentable = {k for k, v in want.items() if op == "sum" and c["dt"] in ("m8", "M8", "i8") and v is not None and not -2**63 < int(v) < 2**63}
    if r[0] != "ok":
        return [dict(sig={**sig, "what": "raised", "exc": r[1]}, what=f"GroupBy.{op} raised: {r[2]}", observed=r[2], expected=str(want))]
    out = r[1]
    if not isinstance(out, pd.Series):
        return [dict(sig={**sig, "what": "type"}, what=f"GroupBy.{op} of a 1-D input returned {type(out).__name__}", observed=str(type(out)), expected="Series")]
    ranks = api.index_to_ranks(out.index, c["kinds"])
    got_vals = api.canon_series(out)
    got = dict(zip(ranks, got_vals))
    viol = []
    if len(ranks) != len(set(ranks)):
        viol.append(dict(sig={**sig, "what": "duplicate-labels"}, what="a label is reported twice", observed=str(ranks), expected=str(sorted(want))))
    if set(got) != set(want):
        viol.append(dict(sig={**sig, "what": "labels"}, what="labels reported differ from the labels having a selected row",
                         observed=str(sorted(got, key=str)), expected=str(sorted(want, key=str))))
    else:
        bad = {k: (got[k], want[k]) for k in want if got[k] != want[k] and k not in unrepresentable}
        if bad:
            viol.append(dict(sig={**sig, "what": "value"}, what=f"GroupBy.{op} differs from the per-group definition at labels {sorted(bad, key=str)}",
                             observed=str({k: str(v[0]) for k, v in bad.items()}), expected=str({k: str(v[1]) for k, v in bad.items()})))
        elif ranks != sorted(ranks):
            viol.append(dict(sig={**sig, "what": "order"}, what="labels are not in ascending key order", observed=str(ranks), expected=str(sorted(ranks))))
    return viol


# ------------------------------------------------------------------ mean of temporal (and wide integer) values
TEMPORAL_ALPHA = {
    # present-day dates in epoch nanoseconds (a handful of them no longer sum within 64 bits), dates before 1970, small ticks
    "M8": [None, 1_704_067_200_123_456_789, 1_704_153_600_000_000_001, 1_600_000_000_000_000_000, -1_500_000_000_000_000_007, 10, 20, 5],
    "m8": [None, 2**62 + 3, -(2**62) - 1, 86_400_000_000_000, 10, -20, 7],
    "i8": [2**62 + 3, -(2**62) - 1, 2**53 + 1, 7, -3],
}


def temporal_mean_stream(res, rng, tier, GroupBy, drv):
    """mean = sum / count in the mathematical sense, for groups of any size: the mean of values that fit the dtype fits the
    dtype, whatever their (unbounded) sum does.  Oracle: exact integer sum and count of the selected non-null values of each
    label, divided exactly; a temporal mean must be within one tick of it (no float detour), with margins and transform."""
    cases = []
    for t in range(250 if tier == "quick" else 2500):
        n = rng.randint(1, 12 if tier == "quick" else 16)
        nlab = rng.choice([1, 2, 3])
        col = [rng.randrange(nlab) if rng.random() > 0.1 else None for _ in range(n)]
        dt = rng.choice(["M8", "M8", "m8", "i8"])
        alpha = TEMPORAL_ALPHA[dt]
        if rng.random() < 0.5:
            alpha = [a for a in alpha if a is None or abs(a) > 10**15] or alpha     # big magnitudes only
        vals = [rng.choice(alpha) for _ in range(n)]
        mask = None if rng.random() < 0.7 else ("b", [rng.random() < 0.7 for _ in range(n)])
        strat = rng.choice([None, None, "chunked", "threads", "both"])
        cont = rng.choice(["numpy", "pandas"])
        kind = rng.choice([k for k in ["int", "float", "str"] if api.kind_ok(col, k)])
        cases.append(dict(keycols=[col], kinds=[kind], dt=dt, vals=vals, mask=mask, op="mean", container=cont, index=None, strategy=strat,
                          margins=rng.random() < 0.2, transform=rng.random() < 0.2))
    for c in cases:
        codes, labels = api.logical_codes(c["keycols"])
        # exact sums and counts per label over the selected rows (unbounded integers)
        rows = [i for i in range(len(codes)) if (c["mask"] is None or c["mask"][1][i]) and codes[i] >= 0]
        observed = [any(codes[i] == g for i in rows) for g in range(len(labels))]
        sums = [sum(c["vals"][i] for i in rows if codes[i] == g and c["vals"][i] is not None) for g in range(len(labels))]
        cnts = [sum(1 for i in rows if codes[i] == g and c["vals"][i] is not None) for g in range(len(labels))]
        if not any(observed):
            continue          # no label at all: nothing to average
        n = len(codes)
        case = dict(stream="temporal-mean", keys=c["keycols"], key_kinds=c["kinds"], dtype=c["dt"], values=c["vals"], mask=c["mask"], op="mean",
                    container=c["container"], strategy=c["strategy"], margins=c["margins"], transform=c["transform"])
        res.note_case(repr(case), True)
        res.count("stream", "temporal-mean"); res.count("op", "mean"); res.count("dtype", c["dt"])
        if c["transform"]:
            c["margins"] = False
        want = {}
        for g, lab in enumerate(labels):
            if observed[g]:
                want[lab] = None if cnts[g] == 0 else Fraction(sums[g] or 0, cnts[g])
        sel = [i for i in (range(n) if c["mask"] is None else [i for i in range(n) if c["mask"][1][i]]) if codes[i] >= 0]
        tot_vals = [c["vals"][i] for i in sel if c["vals"][i] is not None]
        if c["margins"] and sel:
            want[("All",)] = Fraction(sum(tot_vals), len(tot_vals)) if tot_vals else None
        # does an exact sum the library has to form on the way leave the 64-bit range?  (known finding K3)
        big = any(cnts[g] and not -2**63 <= (sums[g] or 0) < 2**63 for g in range(len(labels))) or (c["margins"] and tot_vals and not -2**63 <= sum(tot_vals) < 2**63)
        # partial sums in row order (a wrapped partial sum that returns into range is fine for a wrapping accumulator: not flagged)
        res.count("sum_exceeds_int64", bool(big))
        sig = dict(level="api", stream="temporal-mean", op="mean", dtype=c["dt"], sum_exceeds_int64=bool(big))
        keys = [api.make_key(c["keycols"][0], c["kinds"][0], c["container"], name="k0")]
        values = api.make_values(c["vals"], c["dt"], c["container"], name="v")
        mask = api.api_mask(c["mask"], as_series=(c["container"] == "pandas"))
        st = c["strategy"]
        with api.strategy(chunk_threshold=4 if st in ("chunked", "both") else None, rows_per_thread=2 if st in ("threads", "both") else None):
            r2 = api.call(lambda: GroupBy(keys[0]).mean(values, mask=mask, margins=c["margins"], transform=c["transform"]))
        if r2[0] != "ok":
            if not want:
                continue
            res.violations.append(dict(sig={**sig, "what": "raised", "exc": r2[1]}, case=case, what="GroupBy.mean raised: " + r2[2], observed=r2[2], expected=str(want)))
            continue
        out = r2[1]
        vals_out = api.canon_series(out)
        if c["transform"]:
            got_rows = vals_out
            want_rows = [None if codes[i] < 0 or not observed[codes[i]] else want.get(labels[codes[i]]) for i in range(n)]
            pairs = [(i, g, w) for i, (g, w) in enumerate(zip(got_rows, want_rows)) if codes[i] >= 0 and observed[codes[i]]]
        else:
            got = dict(zip(api.index_to_ranks(out.index, c["kinds"]), vals_out))
            if set(got) != set(want):
                res.violations.append(dict(sig={**sig, "what": "labels"}, case=case, what="labels reported differ from the labels having a selected row", observed=str(sorted(got, key=str)), expected=str(sorted(want, key=str))))
                continue
            pairs = [(k, got[k], want[k]) for k in want]
        if not c["transform"] and not c["margins"] and c["dt"] in ("M8", "m8"):
            # Tie A: the extracted group_mean_ticks (64-bit wrapping sum // count) is what the implementation returns,
            # overflowing groups included - the property fails exactly where the model says it does
            gl = [g for g in range(len(labels)) if observed[g]]
            from ..common import sx
            mresp = drv.ask([sx(["mean_ticks", [[str(c["vals"][i]) for i in rows if codes[i] == g and c["vals"][i] is not None] for g in gl]])])[0]
            model = {labels[g]: (None if a == "N" else int(a)) for g, a in zip(gl, mresp)}
            if any(got.get(k) != model[k] for k in model):
                res.model_mismatches.append(dict(case=case, impl=str({str(k): got.get(k) for k in model}), model=str({str(k): v for k, v in model.items()})))
        bad = []
        for k, g, w in pairs:
            if w is None or g is None:
                if (w is None) != (g is None):
                    bad.append((k, g, w))
            elif c["dt"] == "i8":
                if abs(Fraction(g) - w) > abs(w) * Fraction(1, 10**12) + Fraction(1, 10**9):
                    bad.append((k, g, w))
            elif abs(Fraction(int(g)) - w) >= 1:          # a temporal mean is the exact mean to the resolution of the dtype
                bad.append((k, g, w))
        if bad:
            res.violations.append(dict(sig={**sig, "what": "value"}, case=case, what=f"GroupBy.mean of {c['dt']} values differs from sum / count at {[b[0] for b in bad]}",
                                       observed=str({str(b[0]): str(b[1]) for b in bad}), expected=str({str(b[0]): str(float(b[2]) if b[2] is not None else None) for b in bad})))


def run(res, tier="quick", seed=0, widen=False):
    from groupby_lib import GroupBy

    rng = random.Random(seed * 1009 + 1 + (1 if widen else 0))
    drv = Driver()
    n_cases = 2500 if tier == "quick" else 25000
    res.rule = ("seeded random logical datasets: 1-3 key columns over <=4 labels with null rates 0/0.15/0.3, key kinds int/float/str/categorical(unused categories)/"
                "datetime/bool, numpy or pandas (arbitrary duplicated index) containers; values f8 (dyadic, exact regime)/i8 (incl. > 2^53)/bool/datetime64/timedelta64 "
                "with forced all-null groups; masks none/bool/all-false/whole-group-out/slice(neg bounds)/positions(sorted or with repeats and negatives); "
                "8 reductions; oracle = extracted spec_reduce on the logical codes; plus a temporal-mean stream (present-day / pre-1970 ns timestamps, +-2^62 durations, wide int64, margins, transform, strategies) against the exact rational mean and the extracted 64-bit model; non-trivial = >= 2 groups or a null key/value or a mask; distinct = canonical case")
    cases = [gen_case(rng, tier) for _ in range(n_cases)]
    # corpus: the findings this check was built around
    cases.insert(0, dict(keycols=[[2, 1, 2, 1, 3]], kinds=["int"], dt="f8", vals=[Fraction(1), None, Fraction(2), None, Fraction(5)],
                         mask=None, op="sum", container="numpy", index=None))
    reqs, meta = [], []
    for c in cases:
        codes, labels = api.logical_codes(c["keycols"])
        meta.append((codes, labels))
        reqs.append(api.reduction_spec_request(c["op"], c["dt"], codes, c["vals"], max(len(labels), 1), c["mask"]))
    resp = drv.ask(reqs)
    for ci, c in enumerate(cases):
        codes, labels = meta[ci]
        expected, observed = api.reduction_expected(c["op"], c["dt"], resp[ci], codes, c["mask"])
        nontrivial = len(labels) >= 2 or any(k < 0 for k in codes) or any(v is None for v in c["vals"]) or c["mask"] is not None
        case = dict(keys=c["keycols"], key_kinds=c["kinds"], dtype=c["dt"], values=[None if v is None else str(v) for v in c["vals"]],
                    mask=c["mask"], op=c["op"], container=c["container"], index=c["index"])
        res.note_case(repr(case), nontrivial)
        res.count("op", c["op"]); res.count("dtype", c["dt"]); res.count("nkeys", len(c["keycols"]))
        res.count("mask", "none" if c["mask"] is None else c["mask"][0]); res.count("rows", len(codes))
        res.count("has_null_key", any(k < 0 for k in codes)); res.count("key_kind", "+".join(c["kinds"]))
        res.count("all_null_group", any(observed[g] and all(c["vals"][i] is None for i in range(len(codes)) if codes[i] == g) for g in range(len(labels))))
        if ci % 397 == 0:
            res.sample(case)
        for v in run_case(GroupBy, c, expected, observed, labels):
            v["case"] = case
            res.violations.append(v)
    temporal_mean_stream(res, rng, tier, GroupBy, drv)


def replay(payload):
    from groupby_lib import GroupBy
    c0 = payload["case"]
    c = dict(keycols=c0["keys"], kinds=c0["key_kinds"], dt=c0["dtype"], vals=[None if v is None else (Fraction(v) if c0["dtype"] == "f8" else int(v)) for v in c0["values"]],
             mask=None if c0["mask"] is None else tuple(c0["mask"]), op=c0["op"], container=c0["container"], index=c0["index"])
    drv = Driver()
    codes, labels = api.logical_codes(c["keycols"])
    resp = drv.ask([api.reduction_spec_request(c["op"], c["dt"], codes, c["vals"], max(len(labels), 1), c["mask"])])[0]
    expected, observed = api.reduction_expected(c["op"], c["dt"], resp, codes, c["mask"])
    v = run_case(GroupBy, c, expected, observed, labels)
    return (not v), ("replay: " + (v[0]["what"] + " observed=" + v[0]["observed"] + " expected=" + v[0]["expected"] if v else "no violation on this input"))
