"""C01 — group reductions equal the per-group definition (public GroupBy API).

Every case: logical key columns (1-3, nulls allowed), logical values, mask.  The
real GroupBy.<op>(values, mask=...) is compared with the extracted specification
spec_reduce evaluated on the logical group codes: value per label, the set of
labels reported (= labels with a selected row), their order, neutral results of
all-null groups.  The kernel-level impl-vs-model comparison is C04's; here the
model side is the specification only (the pandas glue is not modelled)."""
from __future__ import annotations

import random
from fractions import Fraction

import numpy as np
import pandas as pd

from ..common import Driver, log
from .. import api

OPS_BY_DT = {
    "f8": api.REDUCTIONS,
    "i8": api.REDUCTIONS,
    "b": ["size", "count", "sum", "min", "max", "first", "last"],
    "M8": ["size", "count", "min", "max", "first", "last"],
    "m8": ["size", "count", "min", "max", "first", "last", "sum"],
}
VALS = {
    "f8": [None, None, Fraction(1), Fraction(2), Fraction(-3), Fraction(1, 2), Fraction(5, 4)],
    "i8": [1, 2, -3, 7, 2**53 + 1],
    "b": [0, 1],
    "M8": [None, 10, 20, 2**60 + 1, 5],
    "m8": [None, 10, -20, 2**60 + 3, 5],
}


def gen_case(rng, tier):
    n = rng.randint(1, 9 if tier == "quick" else 14)
    nkeys = rng.choice([1, 1, 1, 2, 2, 3])
    nlab = rng.choice([2, 3, 4])
    null_rate = rng.choice([0, 0, 0.15, 0.3])
    keycols = [[None if rng.random() < null_rate else rng.randrange(nlab) for _ in range(n)] for _ in range(nkeys)]
    kinds = []
    for col in keycols:
        ks = [k for k in ["int", "float", "str", "cat", "dt", "bool"] if api.kind_ok(col, k)]
        kinds.append(rng.choice(ks))
    dt = rng.choice(["f8", "f8", "f8", "i8", "b", "M8", "m8"])
    vals = [rng.choice(VALS[dt]) for _ in range(n)]
    scen = rng.random()
    codes, labels = api.logical_codes(keycols)
    if scen < 0.25 and labels and dt in ("f8", "M8", "m8"):
        # force an all-null group
        g = rng.randrange(len(labels))
        vals = [None if codes[i] == g else v for i, v in enumerate(vals)]
    mk = rng.choice(["none", "none", "bool", "bool", "slice", "idx", "allfalse", "groupout"])
    if mk == "none":
        mask = None
    elif mk == "bool":
        mask = ("b", [rng.random() < 0.6 for _ in range(n)])
    elif mk == "allfalse":
        mask = ("b", [False] * n)
    elif mk == "groupout":
        g = rng.randrange(len(labels)) if labels else 0
        mask = ("b", [codes[i] != g for i in range(n)])
    elif mk == "slice":
        mask = ("s", rng.choice([None, 0, 1, 2, -1, -3, -n - 1]), rng.choice([None, n, n - 1, -1, 2, n + 2]))
    else:
        k = rng.randint(0, n)
        r = rng.random()
        if r < 0.4:
            mask = ("i", sorted(rng.sample(range(n), k)))                     # strictly increasing
        elif r < 0.65:
            mask = ("i", sorted(rng.randrange(n) for _ in range(k)))          # non-decreasing WITH repeats: a row counts as often as it is named
        else:
            mask = ("i", [rng.randrange(-n, n) for _ in range(k)])            # any order, negatives, repeats
    op = rng.choice(OPS_BY_DT[dt])
    container = rng.choice(["numpy", "pandas", "pandas"])
    index = [rng.randint(0, 6) for _ in range(n)] if container == "pandas" else None
    # the execution strategy must not matter (C03): a third of the cases run chunk-factorized and / or multi-threaded
    strat = rng.choice([None, None, None, None, "chunked", "threads", "both"])
    if rng.random() < 0.12 and n >= 2:
        # multiplicity: a row named k times by a positional mask counts k times, under every strategy
        k = rng.randint(2, n + 2)
        mask = ("i", sorted(rng.randrange(n) for _ in range(k)))
        strat = rng.choice([None, "chunked", "chunked", "threads", "both"])
        op = rng.choice([o for o in OPS_BY_DT[dt] if o in ("size", "count", "sum", "mean")] or OPS_BY_DT[dt])
    return dict(keycols=keycols, kinds=kinds, dt=dt, vals=vals, mask=mask, op=op, container=container, index=index, strategy=strat)


def run_case(GroupBy, c, expected, observed, labels):
    """-> list of violation dicts (sig, what, observed, expected)"""
    n = len(c["vals"])
    idx = c["index"]
    keys = [api.make_key(col, kind, c["container"] if kind != "cat" else "pandas", index=idx, name=f"k{j}")
            for j, (col, kind) in enumerate(zip(c["keycols"], c["kinds"]))]
    if c["container"] == "numpy":
        keys = [k.to_numpy() if (isinstance(k, pd.Series) and kind != "cat") else (pd.Series(k.values) if kind == "cat" else k)
                for k, kind in zip(keys, c["kinds"])]
    values = api.make_values(c["vals"], c["dt"], c["container"], index=idx, name="v")
    mask = api.api_mask(c["mask"], index=idx, as_series=(c["container"] == "pandas"))
    op = c["op"]
    sig = dict(level="api", op=op, dtype=c["dt"], nkeys=len(keys), mask=("none" if c["mask"] is None else c["mask"][0]))
    st = c.get("strategy")
    sig["strategy"] = st or "plain"
    with api.strategy(chunk_threshold=4 if st in ("chunked", "both") else None, rows_per_thread=2 if st in ("threads", "both") else None):
        r = api.call(lambda: GroupBy(keys if len(keys) > 1 else keys[0]))
        if r[0] != "ok":
            return [dict(sig={**sig, "what": "constructor-raised", "exc": r[1]}, what="GroupBy(keys) raised: " + r[2], observed=r[2], expected="a grouping")]
        gb = r[1]
        if op == "size":
            r = api.call(lambda: gb.size(mask=mask))
        else:
            r = api.call(lambda: getattr(gb, op)(values, mask=mask))
    want = {labels[g]: expected[g] for g in range(len(labels)) if observed[g]}
    if r[0] != "ok":
        return [dict(sig={**sig, "what": "raised", "exc": r[1]}, what=f"GroupBy.{op} raised: {r[2]}", observed=r[2], expected=str(want))]
    out = r[1]
    if not isinstance(out, pd.Series):
        return [dict(sig={**sig, "what": "type"}, what=f"GroupBy.{op} of a 1-D input returned {type(out).__name__}", observed=str(type(out)), expected="Series")]
    ranks = api.index_to_ranks(out.index, c["kinds"])
    got_vals = api.canon_series(out)
    got = dict(zip(ranks, got_vals))
    viol = []
    if len(ranks) != len(set(ranks)):
        viol.append(dict(sig={**sig, "what": "duplicate-labels"}, what="a label is reported twice", observed=str(ranks), expected=str(sorted(want))))
    if set(got) != set(want):
        viol.append(dict(sig={**sig, "what": "labels"}, what="labels reported differ from the labels having a selected row",
                         observed=str(sorted(got, key=str)), expected=str(sorted(want, key=str))))
    else:
        bad = {k: (got[k], want[k]) for k in want if got[k] != want[k]}
        if bad:
            viol.append(dict(sig={**sig, "what": "value"}, what=f"GroupBy.{op} differs from the per-group definition at labels {sorted(bad, key=str)}",
                             observed=str({k: str(v[0]) for k, v in bad.items()}), expected=str({k: str(v[1]) for k, v in bad.items()})))
        elif ranks != sorted(ranks):
            viol.append(dict(sig={**sig, "what": "order"}, what="labels are not in ascending key order", observed=str(ranks), expected=str(sorted(ranks))))
    return viol


def run(res, tier="quick", seed=0, widen=False):
    from groupby_lib import GroupBy

    rng = random.Random(seed * 1009 + 1 + (1 if widen else 0))
    drv = Driver()
    n_cases = 2500 if tier == "quick" else 25000
    res.rule = ("seeded random logical datasets: 1-3 key columns over <=4 labels with null rates 0/0.15/0.3, key kinds int/float/str/categorical(unused categories)/"
                "datetime/bool, numpy or pandas (arbitrary duplicated index) containers; values f8 (dyadic, exact regime)/i8 (incl. > 2^53)/bool/datetime64/timedelta64 "
                "with forced all-null groups; masks none/bool/all-false/whole-group-out/slice(neg bounds)/positions(sorted or with repeats and negatives); "
                "8 reductions; oracle = extracted spec_reduce on the logical codes; non-trivial = >= 2 groups or a null key/value or a mask; distinct = canonical case")
    cases = [gen_case(rng, tier) for _ in range(n_cases)]
    # corpus: the findings this check was built around
    cases.insert(0, dict(keycols=[[2, 1, 2, 1, 3]], kinds=["int"], dt="f8", vals=[Fraction(1), None, Fraction(2), None, Fraction(5)],
                         mask=None, op="sum", container="numpy", index=None))
    reqs, meta = [], []
    for c in cases:
        codes, labels = api.logical_codes(c["keycols"])
        meta.append((codes, labels))
        reqs.append(api.reduction_spec_request(c["op"], c["dt"], codes, c["vals"], max(len(labels), 1), c["mask"]))
    resp = drv.ask(reqs)
    for ci, c in enumerate(cases):
        codes, labels = meta[ci]
        expected, observed = api.reduction_expected(c["op"], c["dt"], resp[ci], codes, c["mask"])
        nontrivial = len(labels) >= 2 or any(k < 0 for k in codes) or any(v is None for v in c["vals"]) or c["mask"] is not None
        case = dict(keys=c["keycols"], key_kinds=c["kinds"], dtype=c["dt"], values=[None if v is None else str(v) for v in c["vals"]],
                    mask=c["mask"], op=c["op"], container=c["container"], index=c["index"])
        res.note_case(repr(case), nontrivial)
        res.count("op", c["op"]); res.count("dtype", c["dt"]); res.count("nkeys", len(c["keycols"]))
        res.count("mask", "none" if c["mask"] is None else c["mask"][0]); res.count("rows", len(codes))
        res.count("has_null_key", any(k < 0 for k in codes)); res.count("key_kind", "+".join(c["kinds"]))
        res.count("all_null_group", any(observed[g] and all(c["vals"][i] is None for i in range(len(codes)) if codes[i] == g) for g in range(len(labels))))
        if ci % 397 == 0:
            res.sample(case)
        for v in run_case(GroupBy, c, expected, observed, labels):
            v["case"] = case
            res.violations.append(v)


def replay(payload):
    from groupby_lib import GroupBy
    c0 = payload["case"]
    c = dict(keycols=c0["keys"], kinds=c0["key_kinds"], dt=c0["dtype"], vals=[None if v is None else (Fraction(v) if c0["dtype"] == "f8" else int(v)) for v in c0["values"]],
             mask=None if c0["mask"] is None else tuple(c0["mask"]), op=c0["op"], container=c0["container"], index=c0["index"])
    drv = Driver()
    codes, labels = api.logical_codes(c["keycols"])
    resp = drv.ask([api.reduction_spec_request(c["op"], c["dt"], codes, c["vals"], max(len(labels), 1), c["mask"])])[0]
    expected, observed = api.reduction_expected(c["op"], c["dt"], resp, codes, c["mask"])
    v = run_case(GroupBy, c, expected, observed, labels)
    return (not v), ("replay: " + (v[0]["what"] + " observed=" + v[0]["observed"] + " expected=" + v[0]["expected"] if v else "no violation on this input"))
