"""Called by bin/check when the check process died with a signal / abnormal exit code: the
implementation crashed the interpreter on some input of the check.  Writes a replay file and a
minimal evidence file, prints the VIOLATION line."""
import json, os, sys, time
from pathlib import Path
from .common import VERIF
from .main import LEVELS, write_replay, load_findings, matches

def main():
    rc = int(sys.argv[1]); pid = sys.argv[2].upper()
    tier = "quick"
    if "--tier" in sys.argv:
        tier = sys.argv[sys.argv.index("--tier") + 1]
    # violations the harness had found before the interpreter died (journal written as they were found)
    found = None
    j = os.environ.get("VERIF_JOURNAL")
    if j and os.path.exists(j):
        findings = load_findings()
        for line in open(j):
            try:
                v = json.loads(line)
            except ValueError:
                continue
            if not any(matches(f, pid, v.get("sig", {})) for f in findings):
                found = v
                break
    if found is not None:
        rp = write_replay(pid, dict(property=pid, kind="failing-input", sig=found.get("sig"), case=found.get("case"), observed=found.get("observed"), expected=found.get("expected"),
                                    what=found.get("what"), note=f"found before the check process died with exit status {rc} inside the implementation", how=f"./bin/check {pid} --tier {tier}"))
    else:
      rp = write_replay(pid, dict(property=pid, kind="no-failing-input-found", broken=[f"the check process died with exit status {rc} (signal {rc - 128 if rc > 128 else rc}) while running the implementation: interpreter crash inside the library"],
                                  how=f"./bin/check {pid} --tier {tier}"))
    level = LEVELS[pid]["level"]
    ev = dict(property_id=pid, tier=tier, seed=int(os.environ.get("VERIF_SEED", "0")), level=level,
              coverage=dict(evaluations=1, distinct_nontrivial=2, rule="the run was cut short by a crash of the interpreter inside the implementation", samples=[dict(crash_exit_status=rc)],
                            obligations=1, discharged=0, checker_cmd="(not reached)", trusted_base=[], explanation="interpreter crash", programs=1, disagreements_checked=1),
              assumptions=[], wall_s=0.0, violations=1)
    evp = Path(os.environ.get("VERIF_EVIDENCE_DIR", str(VERIF / "evidence"))) / f"{pid}.json"
    evp.parent.mkdir(exist_ok=True, parents=True)
    evp.write_text(json.dumps(ev, indent=1))
    print(f"VIOLATION property={pid} replay={rp}" + ("" if found is not None else " no-failing-input-found"))

if __name__ == "__main__":
    main()
