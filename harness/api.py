"""API-level adapters: logical datasets (key columns, values, mask) -> real GroupBy
objects in a chosen representation, calls of the public methods, canonical results.

A *logical key column* is a list of small non-negative integers ("ranks") or None
(null key).  It is materialised as int / float(+NaN) / str(+None) / categorical
(with unused categories) / datetime(+NaT) / bool keys in a chosen container.  The
logical group code of a row is the position of its rank tuple among the sorted
distinct null-free rank tuples (-1 when any component is None): this is what the
specification works on; labels of results are mapped back to rank tuples.
"""
from __future__ import annotations

import contextlib
import random
from fractions import Fraction

import numpy as np
import pandas as pd
import polars as pl
import pyarrow as pa

from .common import MIN_INT, err_kind, sx, val_to_atom, atom_to_val, mask_sx
from .kernels import DT, domkey, make_array, make_mask, selected_positions

EPOCH = np.datetime64("2021-03-01T00:00:00", "ns")
DAY = np.timedelta64(1, "D")
STR = ["ka", "kb", "kc", "kd", "ke", "kf", "kg", "kh"]


# ------------------------------------------------------------------ logical codes
def logical_codes(keycols):
    """-> (codes, labels) ; labels = sorted distinct null-free rank tuples"""
    n = len(keycols[0])
    tuples = [tuple(col[i] for col in keycols) for i in range(n)]
    labels = sorted({t for t in tuples if None not in t})
    pos = {t: i for i, t in enumerate(labels)}
    return [pos[t] if None not in t else -1 for t in tuples], labels


# ------------------------------------------------------------------ key materialisation
KEY_TZ = "US/Eastern"
def key_label(rank, kind):
    if kind == "int":
        return 10 * rank + 3
    if kind == "float":
        return 1.5 * rank - 2.0
    if kind == "str":
        return STR[rank]
    if kind == "cat":
        return STR[rank]
    if kind == "dt":
        return pd.Timestamp(EPOCH + rank * DAY)
    if kind == "dttz":
        return pd.Timestamp(EPOCH + rank * DAY, tz="UTC").tz_convert(KEY_TZ)
    if kind == "date":
        return pd.Timestamp(EPOCH + rank * DAY).date()
    if kind == "bool":
        return bool(rank)
    raise ValueError(kind)


def kind_ok(col, kind):
    if kind in ("int", "bool") and None in col:
        return False
    if kind == "bool" and any(r not in (0, 1) for r in col if r is not None):
        return False
    return True


def make_key(col, kind, container="numpy", index=None, name=None, chunks=None, ncat=None):
    """one key column in the requested representation"""
    if kind == "int":
        arr = np.array([key_label(r, kind) for r in col], dtype="int64")
    elif kind == "float":
        arr = np.array([np.nan if r is None else key_label(r, kind) for r in col], dtype="float64")
    elif kind == "str":
        arr = np.array([None if r is None else STR[r] for r in col], dtype=object)
    elif kind in ("dt", "dttz"):
        arr = np.array([np.datetime64("NaT", "ns") if r is None else EPOCH + r * DAY for r in col], dtype="datetime64[ns]")
        if kind == "dttz":
            # time-zone aware timestamps: NumPy and (here) polars cannot carry the zone, those containers fall back to pandas
            ser = pd.Series(arr, index=index, name=name).dt.tz_localize("UTC").dt.tz_convert(KEY_TZ)
            if container in ("numpy", "pandas", "polars"):
                return ser
            if container == "index":
                return pd.DatetimeIndex(ser, name=name)
            pa_arr = pa.Array.from_pandas(ser)
            if container == "arrow":
                return pa_arr
            if container == "pandas_arrow":
                return pd.Series(pd.arrays.ArrowExtensionArray(pa_arr), index=index, name=name)
            chunks = chunks or [len(col)]
            pieces, st = [], 0
            for ln in chunks:
                pieces.append(pa_arr.slice(st, ln))
                st += ln
            return pa.chunked_array(pieces, type=pa_arr.type)
    elif kind == "date":
        # calendar dates (Arrow date32 / polars Date): NumPy and plain pandas have no such dtype, those containers hold an
        # Arrow-backed Series
        days = np.array([np.datetime64("NaT", "D") if r is None else (EPOCH + r * DAY).astype("datetime64[D]") for r in col], dtype="datetime64[D]")
        pa_arr = pa.array(days, type=pa.date32())
        if container == "polars":
            return pl.Series(name or "", pa_arr)
        if container == "arrow":
            return pa_arr
        if container == "arrow_chunked":
            chunks = chunks or [len(col)]
            pieces, st = [], 0
            for ln in chunks:
                pieces.append(pa_arr.slice(st, ln))
                st += ln
            return pa.chunked_array(pieces, type=pa_arr.type)
        return pd.Series(pd.arrays.ArrowExtensionArray(pa_arr), index=index, name=name)
    elif kind == "bool":
        arr = np.array([bool(r) for r in col], dtype=bool)
    elif kind == "cat":
        ncat = ncat or (max([r for r in col if r is not None], default=0) + 2)
        cat = pd.Categorical.from_codes([-1 if r is None else r for r in col], categories=STR[:ncat])
        return pd.Series(cat, index=index, name=name)
    else:
        raise ValueError(kind)
    if container == "numpy":
        return arr
    if container == "pandas":
        return pd.Series(arr, index=index, name=name)
    if container == "index":
        return pd.Index(arr, name=name)
    if container == "polars":
        if kind == "str":
            return pl.Series(name or "", [None if r is None else STR[r] for r in col], dtype=pl.Utf8)
        if kind == "float":
            return pl.Series(name or "", [None if r is None else key_label(r, kind) for r in col], dtype=pl.Float64)
        return pl.Series(name or "", arr)
    if container in ("arrow", "arrow_chunked", "pandas_arrow"):
        if kind == "str":
            pa_arr = pa.array([None if r is None else STR[r] for r in col], type=pa.string())
        elif kind == "float":
            pa_arr = pa.array([None if r is None else key_label(r, kind) for r in col], type=pa.float64())
        elif kind == "dt":
            pa_arr = pa.array(arr)
        else:
            pa_arr = pa.array(arr)
        if container == "arrow":
            return pa_arr
        if container == "pandas_arrow":
            return pd.Series(pd.arrays.ArrowExtensionArray(pa_arr), index=index, name=name)
        chunks = chunks or [len(col)]
        pieces, st = [], 0
        for ln in chunks:
            pieces.append(pa_arr.slice(st, ln))
            st += ln
        return pa.chunked_array(pieces, type=pa_arr.type)
    raise ValueError(container)


def label_to_rank(label, kind):
    """inverse of key_label on what pandas hands back in a result index"""
    if label is None or (isinstance(label, float) and np.isnan(label)) or label is pd.NaT or label is pd.NA:
        return None
    if kind == "int":
        return (int(label) - 3) // 10
    if kind == "float":
        return int(round((float(label) + 2.0) / 1.5))
    if kind in ("str", "cat"):
        return STR.index(str(label))
    if kind == "date":
        if isinstance(label, (pd.Timestamp, np.datetime64)) or not hasattr(label, "toordinal"):
            return "not-a-date"          # the label of a date key must be a calendar date, not a timestamp
        return int((np.datetime64(label, "ns") - EPOCH) // DAY)
    if kind == "dttz":
        ts = pd.Timestamp(label)
        if ts.tzinfo is None:
            return "time-zone-lost"          # a label of a time-zone aware key must carry the zone (never equals a rank)
        return int((ts.tz_convert(None).to_datetime64().astype("datetime64[ns]") - EPOCH) // DAY)
    if kind == "dt":
        ts = pd.Timestamp(label)
        if ts.tzinfo is not None:
            ts = ts.tz_convert(None)
        return int((ts.to_datetime64().astype("datetime64[ns]") - EPOCH) // DAY)
    if kind == "bool":
        return int(bool(label))
    raise ValueError(kind)


def index_to_ranks(index, kinds):
    """result index -> list of rank tuples ('All' margins kept as the string 'All')"""
    out = []
    if isinstance(index, pd.MultiIndex):
        for tup in index.tolist():
            out.append(tuple("All" if (isinstance(x, str) and x == "All") else label_to_rank(x, k) for x, k in zip(tup, kinds)))
    else:
        for x in index.tolist():
            out.append(("All",) if (isinstance(x, str) and x == "All") else (label_to_rank(x, kinds[0]),))
    return out


# ------------------------------------------------------------------ values
def make_values(vals, dt, container="numpy", index=None, name=None, chunks=None):
    arr = make_array(vals, dt)
    if container == "numpy":
        return arr
    if container == "pandas":
        return pd.Series(arr, index=index, name=name)
    if container == "polars":
        if dt in ("f8", "f4"):
            return pl.Series(name or "", arr).fill_nan(None) if False else pl.Series(name or "", arr)
        return pl.Series(name or "", arr)
    if container in ("arrow", "arrow_chunked", "pandas_arrow"):
        pa_arr = pa.array(arr, from_pandas=False) if dt not in ("M8", "m8") else pa.array(arr)
        if container == "arrow":
            return pa_arr
        if container == "pandas_arrow":
            return pd.Series(pd.arrays.ArrowExtensionArray(pa_arr), index=index, name=name)
        chunks = chunks or [len(vals)]
        pieces, st = [], 0
        for ln in chunks:
            pieces.append(pa_arr.slice(st, ln))
            st += ln
        return pa.chunked_array(pieces, type=pa_arr.type)
    raise ValueError(container)


def canon_scalar(x, dt_kind):
    """one result cell -> logical value (None = null); dt_kind: numpy dtype kind of the column"""
    if x is None or x is pd.NaT or x is pd.NA:
        return None
    if isinstance(x, (pd.Timestamp,)):
        if x.tzinfo is not None:
            x = x.tz_convert(None)
        v = int(x.to_datetime64().astype("datetime64[ns]").astype("int64"))
        return None if v == MIN_INT else v
    if isinstance(x, pd.Timedelta):
        v = int(x.to_timedelta64().astype("timedelta64[ns]").astype("int64"))
        return None if v == MIN_INT else v
    if isinstance(x, (np.datetime64, np.timedelta64)):
        if np.isnat(x):
            return None
        return int(x.astype(x.dtype.str[:3] + "[ns]").astype("int64"))
    if isinstance(x, (bool, np.bool_)):
        return int(x)
    if isinstance(x, (int, np.integer)):
        return int(x)
    if isinstance(x, (float, np.floating)):
        if np.isnan(x):
            return None
        if np.isinf(x):
            # an infinite result is a value of its own (never equal to a finite expectation or to null)
            return Fraction(10) ** 400 if x > 0 else -(Fraction(10) ** 400)
        return Fraction(float(x))
    raise TypeError(f"cannot canonicalise {x!r} ({type(x)})")


def canon_series(s):
    """pandas / polars Series -> list of logical values"""
    if isinstance(s, pl.Series):
        s = s.to_pandas()
    if isinstance(s, pd.Series):
        kind = s.dtype.kind if hasattr(s.dtype, "kind") else "O"
        return [canon_scalar(x, kind) for x in s.tolist()] if kind not in "mM" else [canon_scalar(x, kind) for x in list(s)]
    arr = np.asarray(s)
    return [canon_scalar(x, arr.dtype.kind) for x in arr.tolist()] if arr.dtype.kind not in "mM" else [canon_scalar(x, arr.dtype.kind) for x in arr]


# ------------------------------------------------------------------ strategies (execution routes)
@contextlib.contextmanager
def strategy(chunk_threshold=None, rows_per_thread=None, jitter_seed=None, max_cartesian=None):
    """Force the chunked-factorization route / several threads on small inputs, and
    permute the completion order of parallel_map tasks.  Module globals are patched
    at run time (they are read at call time) and restored afterwards.  max_cartesian lowers the size of the cartesian
    product of label counts from which factorize_2d folds its leading keys together (in production: 2**62)."""
    import groupby_lib.groupby.core as core
    import groupby_lib.util as util
    import groupby_lib.groupby.factorization as fact
    saved = {}
    try:
        if max_cartesian is not None and hasattr(fact, "MAX_CARTESIAN_PRODUCT"):
            saved["mc"] = fact.MAX_CARTESIAN_PRODUCT
            fact.MAX_CARTESIAN_PRODUCT = max_cartesian
        if chunk_threshold is not None:
            saved["thr"] = core.THRESHOLD_FOR_CHUNKED_FACTORIZE
            core.THRESHOLD_FOR_CHUNKED_FACTORIZE = chunk_threshold
        if rows_per_thread is not None:
            saved["mt"] = core.GroupBy._max_threads_for_numba
            rpt = rows_per_thread
            core.GroupBy._max_threads_for_numba = property(lambda self: min(4, 1 + len(self) // rpt))
        if jitter_seed is not None:
            import concurrent.futures as cf
            import time
            rng = random.Random(jitter_seed)
            orig = util.parallel_map
            saved["pm"] = orig

            def jittered(func, arg_list, max_workers=None, use_threads=True):
                arg_list = list(arg_list)
                delays = [rng.random() * 0.002 for _ in arg_list]

                def slow(i, *a):
                    time.sleep(delays[i])
                    return func(*a)
                return orig(slow, [(i, *a) for i, a in enumerate(arg_list)], max_workers=max_workers, use_threads=True)
            for mod in _modules_importing_parallel_map():
                saved.setdefault("pm_mods", []).append(mod)
                mod.parallel_map = jittered
        yield
    finally:
        if "mc" in saved:
            fact.MAX_CARTESIAN_PRODUCT = saved["mc"]
        if "thr" in saved:
            core.THRESHOLD_FOR_CHUNKED_FACTORIZE = saved["thr"]
        if "mt" in saved:
            core.GroupBy._max_threads_for_numba = saved["mt"]
        if "pm" in saved:
            for mod in saved.get("pm_mods", []):
                mod.parallel_map = saved["pm"]


def _modules_importing_parallel_map():
    import sys
    out = []
    for name, mod in list(sys.modules.items()):
        if name.startswith("groupby_lib") and getattr(mod, "parallel_map", None) is not None:
            out.append(mod)
    return out


# ------------------------------------------------------------------ reductions: spec side
REDUCTIONS = ["size", "count", "sum", "mean", "min", "max", "first", "last"]
SPEC_OF = {"size": "size", "count": "count", "sum": "sum", "mean": "sum", "min": "min", "max": "max", "first": "first", "last": "last"}


def spec_dom(op, dt):
    return DT[dt]["dom"]


def reduction_spec_request(op, dt, codes, vals, ngroups, mask):
    dom = spec_dom(op, dt)
    if op == "size":
        return sx(["spec_reduce", "i", "size", list(codes), [str(c) for c in codes], ngroups, mask_sx(mask)])
    atoms = [val_to_atom(v, domkey(dom)) for v in vals]
    return sx(["spec_reduce", dom, SPEC_OF[op], list(codes), atoms, ngroups, mask_sx(mask)])


def reduction_expected(op, dt, resp, codes, mask):
    """driver response -> (expected value per group or None, observed flags)"""
    assert resp[0] == "ok", resp
    dom = "i" if op == "size" else spec_dom(op, dt)
    vals = [atom_to_val(p[0], domkey(dom)) for p in resp[1]]
    cnts = [int(p[1]) for p in resp[1]]
    ng = len(vals)
    sel = selected_positions(len(codes), mask)
    observed = [False] * ng
    for i in sel:
        if 0 <= codes[i] < ng:
            observed[codes[i]] = True
    out = []
    for g in range(ng):
        if op in ("size", "count"):
            out.append(cnts[g])
        elif op == "mean":
            if cnts[g] == 0 or vals[g] is None:
                out.append(None)
            else:
                out.append(Fraction(float(vals[g]) / cnts[g]) if dt not in ("M8", "m8") else int(float(vals[g]) / cnts[g]))
        else:
            out.append(vals[g])
    return out, observed


def api_mask(mask, index=None, as_series=False):
    m = make_mask(mask)
    if as_series and mask is not None and mask[0] == "b":
        return pd.Series(m, index=index)
    return m


def call(fn, *a, **k):
    try:
        return ("ok", fn(*a, **k))
    except Exception as e:  # noqa: BLE001
        return ("err", err_kind(e), repr(e)[:300])


# ------------------------------------------------------------------ used objects
WARM_OPS = ["groups", "key_count", "sum_transform", "head", "rolling_by_groups", "apply_aligned", "median", "cumsum"]


def warm(gb, how, n):
    """Use a grouping before the call under test: fills its caches and may re-organise its key representation
    (every property quantifies over groupings, not over FRESH groupings).  Errors of the warming call are ignored."""
    if how is None:
        return
    v = pd.Series(np.arange(n, dtype="float64"))
    try:
        if how == "groups":
            gb.groups
        elif how == "key_count":
            gb.key_count
        elif how == "sum_transform":
            gb.sum(v.to_numpy(), transform=True)
        elif how == "head":
            gb.head(v.to_numpy(), 1)
        elif how == "rolling_by_groups":
            gb.rolling_sum(v.to_numpy(), 2, min_periods=1, index_by_groups=True)
        elif how == "apply_aligned":
            gb.apply(v.to_numpy(), np.cumsum)
        elif how == "median":
            gb.median(v.to_numpy())
        elif how == "cumsum":
            gb.cumsum(v.to_numpy())
    except Exception:  # noqa: BLE001
        pass
